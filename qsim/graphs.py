"""E-graphs: JSON-able object-graph specs, build(spec) -> live objects, structural equality
(the oracle of C01/C14/C08), generators and shrinkers for specs."""
from __future__ import annotations

import copy
import logging
import math
from pathlib import Path

import numpy as np
import torch

NAMES = ["a", "b", "c", "x1", "_p", "data", "values", "items", "0", "12", "é", "名", "a.b",
         "with space", "A", "tensor", "module", "shape", "attrs", "k-1", "_private", "n", "arr",
         "keys", "c0", "info", "child", "count", "flag", ".dm4", ".hidden", "..x", "~t", "#h", "a b.c",
         # names that are NOT in Unicode normal form (NFC / NFKC would rewrite them) and a pair of
         # canonically equivalent but distinct names
         "\u212b_px", "\u00c5_px", "cafe\u0301", "caf\u00e9", "\u00b5_abs", "\u03bc_abs", "\ufb01le",
         "\u2126", "\uff21",
         # look like store internals or numbers with leading zeros
         "007", "c", "0.0", "-1", "a ", " a", "Tensor", "DATA"]
STRS = ["", "a", "hello world", "é名", "a.b/c", "it's \"q\"", "0", "None", "true", " lead", "x" * 40,
        "line\nbreak", "tab\t", "{}", "[1]", "1e5", "nan",
        # strings that look like encodings of other values (in-band sentinels of JSON / YAML / repr)
        "NaN", "Infinity", "-Infinity", "inf", "-inf", "null", "NULL", "false", "True", "False", "~",
        "undefined", "1.0", "-0", "+1", " 1", "0x10", "1_000", "\uff11\uff12", "1e400", "b'x'", "()",
        "__ndarray__", "_autoserialize", "<class 'int'>", "complex(1,2)", "(1+2j)", "Path('x')"]
INTS = [0, 1, -1, 2, 7, 255, -128, 2 ** 31 - 1, -(2 ** 31), 2 ** 53, 2 ** 53 + 1, -(2 ** 62),
        2 ** 63 - 1, -(2 ** 63), 2 ** 70, -(2 ** 65) - 1]
SMALL_INTS = [0, 1, -1, 2, 3, 7, 100, -5, 2 ** 31, -(2 ** 40), 2 ** 53]
FLOATS = ["0x0.0p+0", "-0x0.0p+0", "0x1.0p+0", "-0x1.8p+1", "0x1.999999999999ap-4", "inf", "-inf",
          "nan", "0x0.0000000000001p-1022", "0x1.fffffffffffffp+1023", "0x1.0p-20", "0x1.4p+3"]
ND_DTYPES = ["bool", "int8", "uint8", "int16", "uint16", "int32", "uint32", "int64", "uint64",
             "float16", "float32", "float64", "complex64", "complex128"]
ND_DTYPES_EXOTIC = ["<U5", "|S4", "datetime64[s]", "timedelta64[ms]"]
T_DTYPES = ["float32", "float64", "float16", "bfloat16", "complex64", "complex128", "int64", "int32",
            "uint8", "int8", "bool"]
SHAPES = [[], [0], [1], [3], [0, 3], [3, 0, 2], [2, 3], [1, 1], [4, 1, 2], [2, 2, 2, 2], [5], [7, 3],
          [1, 0], [16]]
ALL_KINDS = ["int", "float", "bool", "none", "str", "path", "list", "tuple", "dict", "set", "nd",
             "npscalar", "tensor", "module", "obj", "rng", "logger", "numseq"]


# ------------------------------------------------------------------------------------------
# build
def _f(v):
    return float.fromhex(v) if isinstance(v, str) else float(v)


def nd_from_spec(s):
    dt = np.dtype(s["dtype"])
    shape = tuple(s["shape"])
    n = int(np.prod(shape)) if shape else 1
    g = np.random.Generator(np.random.PCG64(s.get("fill", 0)))
    if dt.kind == "b":
        flat = g.integers(0, 2, n).astype(bool)
    elif dt.kind in "iu":
        info = np.iinfo(dt)
        flat = g.integers(info.min, info.max, n, dtype=dt, endpoint=True)
        if n > 2:
            flat[0], flat[1] = info.min, info.max
    elif dt.kind == "f":
        flat = g.standard_normal(n).astype(dt)
        if n > 4 and s.get("special", True):
            flat[0], flat[1], flat[2], flat[3] = np.nan, np.inf, -0.0, -np.inf
    elif dt.kind == "c":
        flat = (g.standard_normal(n) + 1j * g.standard_normal(n)).astype(dt)
        if n > 2 and s.get("special", True):
            flat[0] = complex(np.nan, -0.0)
    elif dt.kind == "U":
        flat = np.array(["ab", "é", "", "xyz12"] * (n // 4 + 1), dtype=dt)[:n]
    elif dt.kind == "S":
        flat = np.array([b"ab", b"", b"wxyz", b"\x01"] * (n // 4 + 1), dtype=dt)[:n]
    elif dt.kind in "mM":
        flat = g.integers(-10 ** 6, 10 ** 6, n).astype(dt)
    else:
        raise ValueError(f"dtype {dt}")
    if s.get("const") and dt.kind in "biufc":
        flat = np.zeros(n, dtype=dt) if s["const"] == "zeros" else np.ones(n, dtype=dt)
    arr = flat.reshape(shape)
    order = s.get("order", "C")
    if order == "F" and arr.ndim >= 2:
        arr = np.asfortranarray(arr)
    elif order == "strided" and arr.ndim >= 1 and arr.shape[0] > 0:
        big = np.concatenate([arr, arr], axis=0)
        big = np.repeat(big, 2, axis=0)
        arr2 = big[: 2 * arr.shape[0]: 2]
        arr2[...] = arr
        arr = arr2
    elif order == "ro":
        arr = arr.copy()
        arr.setflags(write=False)
    elif order == "neg" and arr.ndim >= 1:
        arr = np.ascontiguousarray(arr[::-1])[::-1]          # negative stride along axis 0
    elif order == "sliced_big" and arr.ndim >= 1 and arr.size:
        base = np.zeros((arr.shape[0] + 3,) + arr.shape[1:], dtype=arr.dtype)   # view into a larger base
        base[2:2 + arr.shape[0]] = arr
        arr = base[2:2 + arr.shape[0]]
    return arr


def tensor_from_spec(s):
    dt = getattr(torch, s["dtype"])
    shape = tuple(s["shape"])
    g = torch.Generator().manual_seed(int(s.get("fill", 0)) % (2 ** 31))
    if dt.is_floating_point or dt.is_complex:
        base = torch.randn(shape, generator=g, dtype=torch.float64)
        if dt.is_complex:
            t = torch.complex(base, base.flip(0) if base.ndim else base).to(dt)
        else:
            t = base.to(dt)
    elif dt == torch.bool:
        t = torch.randint(0, 2, shape, generator=g).to(torch.bool)
    else:
        t = torch.randint(-100 if dt != torch.uint8 else 0, 100, shape, generator=g).to(dt)
    st = s.get("storage", "own")
    can_grad = dt.is_floating_point or dt.is_complex
    if st != "own" and t.numel() > 0 and t.ndim >= 1:
        # the same values as a VIEW into a larger storage (a row of a big buffer, a slice of a
        # trainable tensor, a transposed view): what a model's parameters and activations often are
        slack = {"view_small": 64, "view_big_leaf": 1 << 19, "view_big_nonleaf": 1 << 19,
                 "transposed": 0}[st]
        if st == "transposed":
            t = t.transpose(0, -1).contiguous().transpose(0, -1)     # same values, other strides
        else:
            buf = torch.zeros(slack + t.numel() + 5, dtype=dt)
            if st == "view_big_nonleaf" and s.get("grad") and can_grad:
                with torch.no_grad():
                    buf[3:3 + t.numel()] = t.reshape(-1)
                buf.requires_grad_(True)
                return buf[3:3 + t.numel()].view(t.shape)              # non-leaf, requires grad
            buf[3:3 + t.numel()] = t.reshape(-1)
            t = buf[3:3 + t.numel()].view(t.shape)
    if s.get("grad") and can_grad:
        t.requires_grad_(True)
    return t


def module_from_spec(s):
    torch.manual_seed(int(s.get("fill", 0)) % (2 ** 31))
    if s["arch"] == "linear":
        return torch.nn.Linear(3, 2)
    if s["arch"] == "seq":
        return torch.nn.Sequential(torch.nn.Linear(2, 3), torch.nn.ReLU(), torch.nn.Linear(3, 1))
    if s["arch"] == "conv":
        return torch.nn.Conv2d(1, 2, 3, bias=False)
    raise ValueError(s["arch"])


def build(s):
    """spec -> live value"""
    import qsim_models

    k = s["k"]
    if k == "bulk":
        # size extremes described compactly (the plan stays small): long strings, long item-wise
        # lists, large dicts, deep nesting, many-element numeric lists
        n, what = s["n"], s["what"]
        if what == "str":
            return (s.get("ch", "x") * n)[:n]
        if what == "strlist":
            return [f"s{i}" for i in range(n)]
        if what == "mixedlist":
            return [i if i % 2 else f"s{i}" for i in range(n)]
        if what == "intlist":
            return [((i * 2654435761) % (2 ** 40)) - 2 ** 39 for i in range(n)]
        if what == "floatlist_integral":
            return [float(i) for i in range(n)]
        if what == "dict":
            return {f"k{i}": i for i in range(n)}
        if what == "nest":
            v = [1, "leaf"]
            for _ in range(n):
                v = [v]
            return v
        if what == "mixedlist_late":
            # more than a thousand plain numbers first, something else at the very end
            return list(range(n)) + [s.get("tail", "end")]
        if what == "tuplelist":
            return [(i, f"t{i}") for i in range(n)]
        raise ValueError(what)
    if k == "int":
        return int(s["v"])
    if k == "float":
        return _f(s["v"])
    if k == "bool":
        return bool(s["v"])
    if k == "none":
        return None
    if k == "str":
        return s["v"]
    if k == "path":
        return Path(s["v"])
    if k in ("list", "numseq"):
        return [build(x) for x in s["items"]]
    if k == "tuple":
        return tuple(build(x) for x in s["items"])
    if k == "set":
        return set(build(x) for x in s["items"])
    if k == "dict":
        return {key: build(x) for key, x in s["items"]}
    if k == "nd":
        return nd_from_spec(s)
    if k == "npscalar":
        dt = np.dtype(s["dtype"])
        if dt.kind == "c":
            return dt.type(complex(*[_f(x) for x in s["v"]]))
        if dt.kind == "b":
            return np.bool_(bool(s["v"]))
        if dt.kind == "f":
            return dt.type(_f(s["v"]))
        return dt.type(int(s["v"]))
    if k == "tensor":
        return tensor_from_spec(s)
    if k == "module":
        return module_from_spec(s)
    if k == "rng":
        return np.random.default_rng(int(s["seed"]))
    if k == "logger":
        lg = logging.getLogger(s["name"])
        lg.setLevel(int(s["level"]))
        return lg
    if k == "complex":
        return complex(_f(s["v"][0]), _f(s["v"][1]))
    if k == "qvector":
        from quantem.core.datastructures.vector import Vector

        nf = s["nf"]
        v = Vector.from_shape(tuple(s["shape"]), fields=[f"f{j}" for j in range(nf)],
                              units=[f"u{j}" for j in range(nf)], name=s.get("name", "vec"))
        g = np.random.Generator(np.random.PCG64(s.get("fill", 0)))
        for q, idx in enumerate(np.ndindex(*s["shape"])):
            if g.random() < s.get("unset", 0.3):
                continue
            rows = int(g.integers(0, 4))
            v[idx if len(idx) > 1 else idx[0]] = np.round(g.uniform(-9, 9, (rows, nf)), 3)
        if s.get("meta"):
            v.metadata["note"] = "m"
            v.metadata["n"] = 3
        return v
    if k == "qdataset":
        import quantem.core.datastructures as qd

        cls = getattr(qd, s["cls"])
        arr = nd_from_spec({"dtype": s["dtype"], "shape": s["shape"], "fill": s.get("fill", 0),
                            "special": False})
        nd_ = arr.ndim
        return cls.from_array(arr, name=s.get("name", "ds"), origin=[0.5 * q for q in range(nd_)],
                              sampling=[1.0 + 0.25 * q for q in range(nd_)],
                              units=[f"u{q}" for q in range(nd_)], signal_units="e")
    if k == "obj" and s["cls"] == "Hybrid":
        o = qsim_models.Hybrid()
        torch.manual_seed(int(s.get("fill", 0)) % (2 ** 31))
        o.lin = torch.nn.Linear(2, 2)
        o._p1 = torch.nn.Parameter(torch.randn(3))
        if s.get("buffer"):
            o.register_buffer("buf", torch.arange(4.0))
        for name, sub in s["attrs"]:
            setattr(o, name, build(sub))
        return o
    if k == "obj":
        cls = qsim_models.CLASSES[s["cls"]]
        o = cls.__new__(cls)
        for name, sub in s["attrs"]:
            o.__dict__[name] = build(sub)
        return o
    raise ValueError(f"unknown spec kind {k}")


# ------------------------------------------------------------------------------------------
# structural equality = the oracle
class Diff(list):
    def add(self, cat, path, detail=""):
        self.append((cat, path, str(detail)[:200]))


def _is_num(x):
    return isinstance(x, (int, float, bool, np.integer, np.floating, np.bool_)) and not isinstance(
        x, (np.ndarray,))


def _num_eq(a, b):
    try:
        fa, fb = complex(a), complex(b)
    except Exception:
        return False
    if isinstance(a, (int, np.integer)) and isinstance(b, (int, np.integer)) and not isinstance(
            a, (bool, np.bool_)) and not isinstance(b, (bool, np.bool_)):
        return int(a) == int(b)
    if fa != fa or fb != fb:
        return (math.isnan(fa.real) == math.isnan(fb.real)) and (
            math.isnan(fa.imag) == math.isnan(fb.imag))
    return fa == fb


def _all_numeric_seq(x):
    return isinstance(x, (list, tuple)) and len(x) > 0 and all(_is_num(v) for v in x)


def equal(exp, got, d: Diff | None = None, path="$", numeric_mode=False) -> Diff:
    """exp: the original (or its rebuilt spec); got: the loaded value."""
    d = Diff() if d is None else d
    from quantem.core.io.serialize import AutoSerialize

    # ---- real library containers, compared through their public API
    try:
        from quantem.core.datastructures.dataset import Dataset as _QDataset
        from quantem.core.datastructures.vector import Vector as _QVector
    except Exception:  # pragma: no cover
        _QDataset = _QVector = ()
    if _QVector and isinstance(exp, _QVector):
        if type(got) is not type(exp):
            d.add("class", path, f"{type(exp).__module__}.{type(exp).__qualname__}->"
                                 f"{type(got).__module__}.{type(got).__qualname__}")
            return d
        try:
            if tuple(got.shape) != tuple(exp.shape) or list(got.fields) != list(exp.fields) or list(
                    got.units) != list(exp.units) or got.name != exp.name:
                d.add("qvector_header", path, f"{exp.shape}/{exp.fields}/{exp.units}/{exp.name} -> "
                      f"{got.shape}/{got.fields}/{got.units}/{got.name}")
                return d
            if type(got.shape) is not tuple or type(got.fields) is not list:
                d.add("qvector_header_kind", path, f"{type(got.shape).__name__}/{type(got.fields).__name__}")
            for idx in np.ndindex(*exp.shape):
                a_ = exp[idx if len(idx) > 1 else idx[0]]
                b_ = got[idx if len(idx) > 1 else idx[0]]
                if (a_ is None) != (b_ is None):
                    d.add("qvector_cell_unset", f"{path}{list(idx)}", f"{a_ is None}->{b_ is None}")
                    return d
                if a_ is not None:
                    equal(a_, b_, d, f"{path}{list(idx)}")
            equal(dict(exp.metadata), dict(got.metadata), d, f"{path}.metadata")
            if not np.array_equal(np.asarray(exp.flatten()), np.asarray(got.flatten())):
                d.add("qvector_flatten", path)
        except Exception as e:
            d.add("qvector_api_raised", path, repr(e))
        return d
    if _QDataset and isinstance(exp, _QDataset):
        if type(got) is not type(exp):
            d.add("class", path, f"{type(exp).__module__}.{type(exp).__qualname__}->"
                                 f"{type(got).__module__}.{type(got).__qualname__}")
            return d
        try:
            equal(exp.array, got.array, d, f"{path}.array")
            equal(np.asarray(exp.origin), np.asarray(got.origin), d, f"{path}.origin")
            equal(np.asarray(exp.sampling), np.asarray(got.sampling), d, f"{path}.sampling")
            if list(exp.units) != list(got.units) or exp.name != got.name or \
                    exp.signal_units != got.signal_units:
                d.add("qdataset_header", path, f"{exp.units}/{exp.name} -> {got.units}/{got.name}")
            if got.ndim != exp.ndim or tuple(got.shape) != tuple(exp.shape):
                d.add("qdataset_shape", path)
            c_ = got.copy()   # the loaded object must be a working dataset
            if type(c_) is not type(exp) or c_.array.tobytes() != exp.array.tobytes():
                d.add("qdataset_copy", path)
        except Exception as e:
            d.add("qdataset_api_raised", path, repr(e))
        return d
    # ---- AutoSerialize + nn.Module hybrids: state_dict, behaviour and plain attributes
    if isinstance(exp, AutoSerialize) and isinstance(exp, torch.nn.Module):
        if type(got) is not type(exp):
            d.add("class", path, f"{type(exp).__module__}.{type(exp).__qualname__}->"
                                 f"{type(got).__module__}.{type(got).__qualname__}")
            return d
        try:
            sa, sb = exp.state_dict(), got.state_dict()
        except Exception as e:
            d.add("hybrid_state_dict_raised", path, repr(e))
            return d
        if list(sa) != list(sb):
            d.add("hybrid_state_keys", path, f"{list(sa)}->{list(sb)}")
            return d
        for k_ in sa:
            if sa[k_].dtype != sb[k_].dtype or sa[k_].shape != sb[k_].shape or not torch.equal(
                    sa[k_], sb[k_]):
                d.add("hybrid_state_value", f"{path}.{k_}")
        internal = set(vars(torch.nn.Module())) | {"training"}
        en = {n for n in vars(exp) if n not in internal}
        gn = {n for n in vars(got) if n not in internal}
        if en != gn:
            d.add("attr_names_extra" if gn - en else "attr_names_missing", path,
                  f"+{sorted(gn - en)} -{sorted(en - gn)}")
        for n in sorted(en & gn):
            equal(vars(exp)[n], vars(got)[n], d, f"{path}.{n}")
        if bool(exp.training) != bool(getattr(got, "training", None)):
            d.add("hybrid_training_flag", path)
        try:
            x = torch.ones(1, 2)
            if not torch.equal(exp(x), got(x)):
                d.add("hybrid_forward_differs", path)
            if sum(1 for _ in got.parameters()) != sum(1 for _ in exp.parameters()):
                d.add("hybrid_parameter_count", path)
        except Exception as e:
            d.add("hybrid_forward_raised", path, repr(e))
        return d
    # ---- AutoSerialize objects
    if isinstance(exp, AutoSerialize):
        if type(got) is not type(exp):
            d.add("class", path, f"{type(exp).__module__}.{type(exp).__qualname__}->"
                                 f"{type(got).__module__}.{type(got).__qualname__}")
            return d
        fields = getattr(type(exp), "__attrs_attrs__", None)
        if fields is not None:
            en = {f.name for f in fields if f.name in vars(exp)}
            gn = set(vars(got))
        else:
            en, gn = set(vars(exp)), set(vars(got))
        if en != gn:
            extra, missing = sorted(gn - en), sorted(en - gn)
            if extra:
                d.add("attr_names_extra", path, "+" + ",".join(extra))
            if missing:
                d.add("attr_names_missing", path, "-" + ",".join(missing))
        for n in sorted(en & gn):
            equal(vars(exp)[n], vars(got)[n], d, f"{path}.{n}")
        return d
    # ---- numpy scalars: by numeric value only (may come back as python scalars)
    if isinstance(exp, np.generic) and not isinstance(exp, np.ndarray):
        if isinstance(got, np.ndarray) and got.ndim == 0:
            got = got[()]  # a 0-d array carries the same single numeric value
        if isinstance(got, (np.ndarray, list, tuple, dict, set, str)) or got is None or not _num_eq(
                exp, got):
            d.add("npscalar_value", path, f"{exp!r}({type(exp).__name__})->{got!r}")
        return d
    # ---- all-numeric sequences: kind exact, elements by numeric value
    if _all_numeric_seq(exp):
        if type(got) is not type(exp):
            d.add("container_kind", path, f"{type(exp).__name__}->{type(got).__name__}")
            return d
        if len(got) != len(exp):
            d.add("seq_len", path, f"{len(exp)}->{len(got)}")
            return d
        for i, (a, b) in enumerate(zip(exp, got)):
            if not _is_num(b) or not _num_eq(a, b):
                d.add("numseq_value", f"{path}[{i}]", f"{a!r}->{b!r}")
                break
        return d
    # ---- python scalars: exact type and value
    if exp is None or isinstance(exp, (bool, int, float, str, complex)):
        if type(got) is not type(exp):
            d.add("scalar_type", path, f"{type(exp).__name__}->{type(got).__name__}:{got!r}"[:80])
            return d
        if isinstance(exp, float):
            if math.isnan(exp):
                ok = math.isnan(got)
            else:
                ok = exp == got and math.copysign(1, exp) == math.copysign(1, got)
        elif isinstance(exp, complex):
            ok = _num_eq(exp, got)
        else:
            ok = exp == got
        if not ok:
            d.add("scalar_value", path, f"{exp!r}->{got!r}")
        return d
    if isinstance(exp, Path):
        if not isinstance(got, Path):
            d.add("path_kind", path, f"Path->{type(got).__name__}")
        elif str(got) != str(exp):
            d.add("path_value", path, f"{exp}->{got}")
        return d
    # ---- containers
    if isinstance(exp, (list, tuple)):
        if type(got) is not type(exp):
            d.add("container_kind", path, f"{type(exp).__name__}->{type(got).__name__}")
            return d
        if len(got) != len(exp):
            d.add("seq_len", path, f"{len(exp)}->{len(got)}")
            return d
        for i, (a, b) in enumerate(zip(exp, got)):
            equal(a, b, d, f"{path}[{i}]")
        return d
    if isinstance(exp, dict):
        if type(got) is not dict:
            d.add("container_kind", path, f"dict->{type(got).__name__}")
            return d
        if set(exp) != set(got):
            d.add("dict_keys", path, f"-{sorted(set(exp) - set(got))} +{sorted(set(got) - set(exp))}")
        for k in exp:
            if k in got:
                equal(exp[k], got[k], d, f"{path}[{k!r}]")
        return d
    if isinstance(exp, (set, frozenset)):
        if type(got) is not type(exp):
            d.add("container_kind", path, f"{type(exp).__name__}->{type(got).__name__}")
            return d
        # members are hashable python scalars / strings / tuples / paths
        if not _set_eq(exp, got):
            d.add("set_members", path, f"{sorted(map(repr, exp))}->{sorted(map(repr, got))}")
        return d
    # ---- arrays / tensors / modules
    if isinstance(exp, np.ndarray):
        if not isinstance(got, np.ndarray):
            d.add("nd_kind", path, f"ndarray->{type(got).__name__}")
            return d
        if got.dtype != exp.dtype:
            d.add("nd_dtype", path, f"{exp.dtype}->{got.dtype}")
        elif got.shape != exp.shape:
            d.add("nd_shape", path, f"{exp.shape}->{got.shape}")
        elif np.ascontiguousarray(got).tobytes() != np.ascontiguousarray(exp).tobytes():
            d.add("nd_bytes", path, f"ndim={exp.ndim} dtype={exp.dtype} size={exp.size}")
        return d
    if isinstance(exp, torch.nn.Module):
        if type(got) is not type(exp):
            d.add("module_class", path, f"{type(exp).__name__}->{type(got).__name__}")
            return d
        sa, sb = exp.state_dict(), got.state_dict()
        if list(sa) != list(sb):
            d.add("module_state_keys", path, f"{list(sa)}->{list(sb)}")
            return d
        for k in sa:
            if sa[k].dtype != sb[k].dtype or sa[k].shape != sb[k].shape or not torch.equal(
                    sa[k], sb[k]):
                d.add("module_state_value", f"{path}.{k}")
        if repr(exp) != repr(got):
            d.add("module_repr", path)
        return d
    if isinstance(exp, torch.Tensor):
        if not isinstance(got, torch.Tensor):
            d.add("tensor_kind", path, f"Tensor->{type(got).__name__}")
            return d
        if got.dtype != exp.dtype:
            d.add("tensor_dtype", path, f"{exp.dtype}->{got.dtype}")
        elif tuple(got.shape) != tuple(exp.shape):
            d.add("tensor_shape", path, f"{tuple(exp.shape)}->{tuple(got.shape)}")
        elif got.requires_grad != exp.requires_grad:
            d.add("tensor_requires_grad", path, f"{exp.requires_grad}->{got.requires_grad}")
        else:
            a, b = exp.detach(), got.detach()
            if a.is_complex():
                a, b = torch.view_as_real(a), torch.view_as_real(b)
            if a.is_floating_point():
                same = bool(((a == b) | (a.isnan() & b.isnan())).all())
            else:
                same = bool(torch.equal(a, b))
            if not same:
                d.add("tensor_value", path, f"dtype={exp.dtype} shape={tuple(exp.shape)}")
        return d
    if isinstance(exp, np.random.Generator):
        if not isinstance(got, np.random.Generator):
            d.add("rng_kind", path, f"Generator->{type(got).__name__}")
        return d
    if isinstance(exp, logging.Logger):
        if not isinstance(got, logging.Logger):
            d.add("logger_kind", path, f"Logger->{type(got).__name__}")
        return d
    raise TypeError(f"equal(): unsupported expected value {type(exp)} at {path}")


def _set_eq(a, b):
    if len(a) != len(b):
        return False
    if a and all(_is_num(x) for x in a):
        # all-numeric sets travel through the ndarray fast path: by numeric value
        if not all(_is_num(x) for x in b):
            return False
        rest = list(b)
        for x in a:
            hit = next((i for i, y in enumerate(rest) if _num_eq(x, y)), None)
            if hit is None:
                return False
            rest.pop(hit)
        return True
    key = lambda x: (type(x).__name__, repr(x))
    return sorted(map(key, a)) == sorted(map(key, b))


def diff_sig(diff: Diff):
    """Stable class-of-failure signature for a diff (first entry)."""
    cat, path, detail = diff[0]
    detail = detail.split(" ")[0][:60]
    if cat in ("nd_bytes",):
        detail = "0d" if "ndim=0" in diff[0][2] else "nd"
    if cat in ("scalar_value", "numseq_value", "tensor_value", "set_members", "path_value",
               "npscalar_value", "dict_keys", "module_state_value", "attr_names_missing"):
        detail = ""
    depth = 0 if path == "$" else 1
    return f"{cat}:{detail}"


# ------------------------------------------------------------------------------------------
# generation
def default_opts(rng, tier="quick", allow=None):
    kinds = list(allow or ALL_KINDS)
    en = rng.subset(kinds, p=0.6, at_least=3)
    regime = rng.weighted([("tiny", 3), ("wide", 2), ("deep", 2), ("big", 1)])
    return {"kinds": en, "regime": regime, "exotic": tier == "thorough" and rng.chance(0.15)}


def gen_name(rng, used, pool=NAMES):
    for _ in range(50):
        n = rng.pick(pool)
        if n not in used:
            used.add(n)
            return n
    n = f"z{len(used)}"
    used.add(n)
    return n


def gen_float(rng):
    if rng.chance(0.6):
        return rng.pick(FLOATS)
    return float(rng.uniform(-1e3, 1e3)).hex()


def gen_scalar(rng, kinds=("int", "float", "bool", "none", "str")):
    k = rng.pick(list(kinds))
    if k == "int":
        return {"k": "int", "v": rng.pick(INTS)}
    if k == "float":
        return {"k": "float", "v": gen_float(rng)}
    if k == "bool":
        return {"k": "bool", "v": rng.chance(0.5)}
    if k == "none":
        return {"k": "none"}
    return {"k": "str", "v": rng.pick(STRS)}


def gen_nd(rng, opts, big=False):
    dts = ND_DTYPES + (ND_DTYPES_EXOTIC if opts.get("exotic") else [])
    dt = rng.pick(dts)
    if big:
        side = rng.pick([300, 400, 520])
        shape = [side, side] if rng.chance(0.7) else [side * side // 8, 8]
        dt = rng.pick(["float32", "float64", "int16", "complex64"])
        fillmode = rng.pick(["rand", "zeros"])
        s = {"k": "nd", "dtype": dt, "shape": shape, "fill": rng.randrange(1000), "special": False}
        if fillmode == "zeros":
            s["const"] = "zeros"      # a multi-chunk array of fill values: no chunk files at all
        return s
    shape = list(rng.pick(SHAPES))
    order = rng.weighted([("C", 6), ("F", 2), ("strided", 1), ("ro", 1), ("neg", 0.7), ("sliced_big", 0.7)])
    s = {"k": "nd", "dtype": dt, "shape": shape, "fill": rng.randrange(1000), "order": order}
    const = rng.fork("const").pick([None] * 10 + ["zeros", "ones"])
    if const:
        s["const"] = const     # every element equal to the fill value / to one (chunks may be omitted)
    return s


def gen_npscalar(rng):
    dt = rng.pick(["float32", "float64", "float16", "int8", "int32", "int64", "uint8", "uint64",
                   "bool", "complex64", "complex128"])
    if dt.startswith("complex"):
        return {"k": "npscalar", "dtype": dt, "v": [rng.pick(["0x1.8p+1", "0x0.0p+0", "nan"]),
                                                     rng.pick(["-0x1.0p+0", "0x1.0p-3", "inf"])]}
    if dt == "bool":
        return {"k": "npscalar", "dtype": dt, "v": rng.chance(0.5)}
    if dt.startswith("float"):
        v = rng.pick(["0x1.8p+1", "-0x0.0p+0", "0x1.0p-3", "inf", "nan", "0x1.0p+0"])
        return {"k": "npscalar", "dtype": dt, "v": v}
    info = np.iinfo(np.dtype(dt))
    return {"k": "npscalar", "dtype": dt, "v": rng.pick([0, 1, int(info.max), int(info.min), 5])}


def gen_tensor(rng):
    dt = rng.pick(T_DTYPES)
    shape = list(rng.pick(SHAPES[:11]))
    return {"k": "tensor", "dtype": dt, "shape": shape, "fill": rng.randrange(1000),
            "grad": rng.chance(0.4),
            "storage": rng.fork("storage").pick(["own"] * 10 + ["view_small", "view_big_leaf",
                                                                "view_big_nonleaf", "transposed"])}


def gen_hashable(rng):
    k = rng.weighted([("int", 3), ("str", 3), ("float", 1), ("bool", 1), ("none", 1), ("path", 1),
                      ("tuple", 1)])
    if k == "path":
        return {"k": "path", "v": rng.pick(["a/b.txt", "rel", "/abs/x"])}
    if k == "tuple":
        return {"k": "tuple", "items": [gen_scalar(rng, ("str",)), gen_scalar(rng, ("int",))]}
    return gen_scalar(rng, (k,))


def gen_value(rng, opts, depth, budget):
    """budget: mutable [remaining nodes]"""
    kinds = opts["kinds"]
    budget[0] -= 1
    containers = {"list", "tuple", "dict", "set", "obj", "numseq"}
    cand = [k for k in kinds if depth < opts["maxdepth"] or k not in containers]
    if budget[0] <= 0:
        cand = [k for k in cand if k not in containers] or ["int"]
    if not cand:
        cand = ["int"]
    k = rng.pick(cand)
    if k in ("int", "float", "bool", "none", "str"):
        return gen_scalar(rng, (k,))
    if k == "path":
        return {"k": "path", "v": rng.pick(["a/b.txt", "/abs/x", ".", "rel", "a b/é"])}
    if k == "numseq":
        n = rng.pick([1, 2, 3, 5])
        mode = rng.pick(["int", "float", "mixed", "bool", "np", "zero_d"])
        if mode == "zero_d":
            # 0-d arrays / 0-d tensors next to plain numbers: numpy's dtype discovery treats them as
            # scalars, the serializer must not (they are arrays and must come back as arrays)
            items = []
            for _ in range(n):
                c = rng.pick(["nd", "nd", "tensor", "num"])
                if c == "nd":
                    items.append({"k": "nd", "dtype": rng.pick(["uint8", "float32", "int16", "bool",
                                                                "float64"]), "shape": [],
                                  "fill": rng.randrange(1000)})
                elif c == "tensor":
                    items.append({"k": "tensor", "dtype": rng.pick(["float32", "int64"]), "shape": [],
                                  "fill": rng.randrange(1000), "grad": False})
                else:
                    items.append({"k": rng.pick(["int", "float"]), "v": rng.pick([0, 1, 5])} if rng.chance(
                        0.5) else {"k": "float", "v": "0x1.8p+1"})
            return {"k": rng.pick(["list", "tuple"]), "items": items}
        items = []
        for _ in range(n):
            if mode == "int":
                items.append({"k": "int", "v": rng.pick(SMALL_INTS)})
            elif mode == "float":
                items.append({"k": "float", "v": gen_float(rng)})
            elif mode == "bool":
                items.append({"k": "bool", "v": rng.chance(0.5)})
            elif mode == "np":
                it = gen_npscalar(rng) if rng.chance(0.6) else {"k": "int", "v": rng.pick([0, 1, 5])}
                if it.get("dtype", "").startswith("complex"):
                    it = {"k": "npscalar", "dtype": "float32", "v": "0x1.8p+1"}
                if it.get("dtype") == "uint64" and it["v"] > 2 ** 63 - 1:
                    it["v"] = 5  # the claim covers ints within int64 inside numeric sequences
                items.append(it)
            else:
                items.append(rng.pick([{"k": "int", "v": rng.pick([0, 1, -3, 2 ** 40])},
                                       {"k": "float", "v": gen_float(rng)},
                                       {"k": "bool", "v": True}]))
        return {"k": rng.pick(["list", "tuple"]), "items": items}
    if k in ("list", "tuple"):
        if rng.chance(0.06):
            # long item-wise sequences: index keys with 2-3 digits ('10' < '9' lexicographically)
            n = rng.pick([10, 11, 12, 21, 100, 101])
            pool = [{"k": "str", "v": "s"}, {"k": "int", "v": 3}, {"k": "none"}, {"k": "bool", "v": True}]
            items = [dict(pool[(q * 7 + n) % 4], **({"v": f"s{q}"} if (q * 7 + n) % 4 == 0 else {}))
                     for q in range(n)]
            items[0] = {"k": "str", "v": "first"}
            return {"k": k, "items": items}
        n = rng.pick([0, 1, 2, 3, 4]) if opts["regime"] != "wide" else rng.pick([3, 6, 9])
        return {"k": k, "items": [gen_value(rng, opts, depth + 1, budget) for _ in range(n)]}
    if k == "set":
        if rng.chance(0.06):
            n = rng.pick([10, 11, 13, 101])
            return {"k": "set", "items": [{"k": "str", "v": f"m{q}"} for q in range(n - 1)] + [
                {"k": "none"}]}
        n = rng.pick([0, 1, 2, 4])
        items, seen = [], set()
        for _ in range(n):
            it = gen_hashable(rng)
            key = repr(build(it))
            hv = build(it)
            # avoid python-level collisions such as 1 == True == 1.0 inside one set
            if any(_py_eq(hv, build(x)) for x in items):
                continue
            items.append(it)
        return {"k": "set", "items": items}
    if k == "dict":
        if rng.chance(0.05):
            # many keys, incl. digit-only ones that look like sequence indices
            n = rng.pick([11, 12, 25])
            return {"k": "dict", "items": [[str(q) if q % 2 else f"k{q}", {"k": "int", "v": q}]
                                           for q in range(n)]}
        n = rng.pick([0, 1, 2, 3]) if opts["regime"] != "wide" else rng.pick([3, 6])
        used = set()
        items = []
        for _ in range(n):
            items.append([gen_name(rng, used), gen_value(rng, opts, depth + 1, budget)])
        return {"k": "dict", "items": items}
    if k == "nd":
        return gen_nd(rng, opts)
    if k == "npscalar":
        return gen_npscalar(rng)
    if k == "tensor":
        return gen_tensor(rng)
    if k == "module":
        return {"k": "module", "arch": rng.pick(["linear", "seq", "conv"]), "fill": rng.randrange(99)}
    if k == "rng":
        return {"k": "rng", "seed": rng.randrange(1000)}
    if k == "logger":
        return {"k": "logger", "name": rng.pick(["qsim.a", "qsim.b"]), "level": rng.pick(
            [10, 20, 30])}
    if k == "obj":
        if rng.chance(0.1):
            if rng.chance(0.5):
                nd_ = rng.pick([1, 2, 3])
                return {"k": "qvector", "shape": [rng.pick([1, 2, 3]) for _ in range(nd_)],
                        "nf": rng.pick([1, 2, 3]), "fill": rng.randrange(1000),
                        "unset": rng.pick([0.0, 0.3, 1.0]), "meta": rng.chance(0.5)}
            cls = rng.pick(["Dataset", "Dataset2d", "Dataset3d", "Dataset4dstem"])
            nd_ = {"Dataset": rng.pick([1, 2, 5]), "Dataset2d": 2, "Dataset3d": 3, "Dataset4dstem": 4}[cls]
            return {"k": "qdataset", "cls": cls, "shape": [rng.pick([1, 2, 3]) for _ in range(nd_)],
                    "dtype": rng.pick(["float32", "float64", "int32", "complex64", "uint8"]),
                    "fill": rng.randrange(1000)}
        return gen_obj(rng, opts, depth + 1, budget)
    raise ValueError(k)


def _py_eq(a, b):
    try:
        if isinstance(a, float) and isinstance(b, float) and math.isnan(a) and math.isnan(b):
            return True
        return a == b
    except Exception:
        return False


def gen_hybrid(rng, opts):
    names = rng.subset(["alpha", "beta", "meta", "arr", "note"], 0.5, 1)
    simple = {"kinds": [k for k in opts["kinds"] if k in ("int", "float", "bool", "none", "str", "nd",
                                                           "numseq", "list", "tuple")] or ["int"],
              "regime": "tiny", "maxdepth": 1}
    attrs = [[n, gen_value(rng, simple, 1, [4])] for n in names]
    return {"k": "obj", "cls": "Hybrid", "fill": rng.randrange(1000), "buffer": rng.chance(0.4),
            "attrs": attrs}


def gen_obj(rng, opts, depth=0, budget=None, cls=None, nattrs=None):
    budget = budget if budget is not None else [opts.get("nodes", 24)]
    if cls is None and "module" in opts["kinds"] and rng.chance(0.12):
        return gen_hybrid(rng, opts)
    cls = cls or rng.weighted([("Plain", 4), ("Node", 3), ("Leaf", 2), ("Other", 1),
                               ("AttrsLike", 1), ("Inner", 1)])
    if cls in ("Plain", "Node", "Inner") and rng.fork(("twin", depth, budget[0])).chance(0.2):
        cls += "@2"     # the class of the same name from the second module
    if cls == "AttrsLike":
        names = ["fa", "fb", "fc"]
    else:
        if nattrs is None:
            nattrs = {"tiny": rng.pick([0, 1, 2, 3]), "wide": rng.pick([5, 8, 12]),
                      "deep": rng.pick([1, 2, 3]), "big": rng.pick([2, 3, 4])}[opts["regime"]]
        used = set()
        names = [gen_name(rng, used) for _ in range(nattrs)]
    attrs = [[n, gen_value(rng, opts, depth, budget)] for n in names]
    if "float" in opts["kinds"] and attrs and rng.chance(0.05):
        # a python complex directly as an attribute (dill fallback path)
        attrs[rng.randrange(len(attrs))][1] = {"k": "complex", "v": [gen_float(rng), gen_float(rng)]}
    return {"k": "obj", "cls": cls, "attrs": attrs}


def sanitize(spec):
    """Keep generated graphs inside the property's quantifier: inside all-numeric sequences/sets
    ints stay within int64, and within 2^53 when a float is present (the serializer stores such
    containers as one homogeneous array)."""
    for _, s in walk(spec):
        if s.get("k") in ("list", "tuple", "set") and s["items"] and all(
                x["k"] in ("int", "float", "bool") or (x["k"] == "npscalar" and not x[
                    "dtype"].startswith("complex")) for x in s["items"]):
            has_float = any(x["k"] == "float" or (x["k"] == "npscalar" and x["dtype"].startswith(
                "float")) for x in s["items"])
            for x in s["items"]:
                if x["k"] == "npscalar" and x["dtype"] == "uint64" and int(x["v"]) > 2 ** 63 - 1:
                    x["v"] = 5
                if has_float and x["k"] in ("int", "npscalar") and not isinstance(x["v"], (str, bool)) \
                        and abs(int(x["v"])) > 2 ** 53:
                    x["v"] = 7 if x["k"] == "int" else 1
                if x["k"] == "int" and not (-(2 ** 63) <= int(x["v"]) < 2 ** 63):
                    x["v"] = 9   # ints inside all-numeric containers stay within int64
            if s["k"] == "set":
                # members that became numerically equal would collapse: de-duplicate
                seen, keep = [], []
                for x in s["items"]:
                    v = build(x)
                    if any(_py_eq(v, w) for w in seen):
                        continue
                    seen.append(v)
                    keep.append(x)
                s["items"] = keep
    return spec


def gen_graph(rng, tier="quick", allow=None, root_cls=None):
    opts = default_opts(rng, tier, allow)
    opts["maxdepth"] = {"tiny": 2, "wide": 2, "deep": 4, "big": 2}[opts["regime"]]
    opts["nodes"] = {"tiny": 10, "wide": 30, "deep": 40, "big": 14}[opts["regime"]]
    g = gen_obj(rng, opts, 0, None, cls=root_cls)
    if opts["regime"] == "big" and g["cls"] != "AttrsLike":
        used = {n for n, _ in g["attrs"]}
        g["attrs"].insert(rng.randrange(len(g["attrs"]) + 1),
                          [gen_name(rng, used), gen_nd(rng, opts, big=True)])
    return sanitize(g), opts


# ------------------------------------------------------------------------------------------
# spec utilities
def walk(spec, path=()):
    yield path, spec
    k = spec.get("k")
    if k in ("list", "tuple", "set", "numseq"):
        for i, s in enumerate(spec["items"]):
            yield from walk(s, path + (("items", i),))
    elif k == "dict":
        for i, (_, s) in enumerate(spec["items"]):
            yield from walk(s, path + (("items", i, 1),))
    elif k == "obj":
        for i, (_, s) in enumerate(spec["attrs"]):
            yield from walk(s, path + (("attrs", i, 1),))


def count_nodes(spec):
    return sum(1 for _ in walk(spec))


def kinds_in(spec):
    return sorted({s["k"] for _, s in walk(spec)})


def _get(spec, path):
    cur = spec
    for step in path:
        cur = cur[step[0]][step[1]]
        if len(step) == 3:
            cur = cur[step[2]]
    return cur


def _set(spec, path, new):
    spec = copy.deepcopy(spec)
    if not path:
        return new
    cur = spec
    for step in path[:-1]:
        cur = cur[step[0]][step[1]]
        if len(step) == 3:
            cur = cur[step[2]]
    last = path[-1]
    if len(last) == 3:
        cur[last[0]][last[1]][last[2]] = new
    else:
        cur[last[0]][last[1]] = new
    return spec


def shrink_spec(spec):
    """Yield structurally smaller graph specs (root stays an obj)."""
    nodes = list(walk(spec))
    # 1. drop attributes / items (big first)
    for path, s in nodes:
        k = s.get("k")
        key = "attrs" if k == "obj" else "items" if k in ("list", "tuple", "set", "dict") else None
        if key and s[key] and not (k == "obj" and s["cls"] == "AttrsLike"):
            n = len(s[key])
            if n > 2:
                for half in (s[key][: n // 2], s[key][n // 2:]):
                    s2 = dict(s)
                    s2[key] = half
                    yield _set(spec, path, s2)
            for i in range(n):
                s2 = dict(s)
                s2[key] = s[key][:i] + s[key][i + 1:]
                yield _set(spec, path, s2)
    # 2. replace a container by one of its children / simplify leaves
    for path, s in nodes:
        if not path:
            continue
        k = s.get("k")
        if k in ("list", "tuple", "set"):
            for it in s["items"]:
                yield _set(spec, path, it)
        elif k == "dict":
            for _, it in s["items"]:
                yield _set(spec, path, it)
        elif k == "obj":
            for _, it in s["attrs"]:
                yield _set(spec, path, it)
        elif k in ("nd", "tensor"):
            if s["shape"] not in ([], [0], [1]):
                for sh in ([], [1], [0], s["shape"][:-1], [max(1, x // 2) for x in s["shape"]]):
                    if sh != s["shape"]:
                        s2 = dict(s)
                        s2["shape"] = list(sh)
                        s2.pop("order", None)
                        yield _set(spec, path, s2)
            if s.get("order", "C") != "C":
                s2 = dict(s)
                s2["order"] = "C"
                yield _set(spec, path, s2)
        elif k == "str" and s["v"] not in ("", "a"):
            yield _set(spec, path, {"k": "str", "v": "a"})
        elif k == "int" and s["v"] not in (0, 1):
            yield _set(spec, path, {"k": "int", "v": 1})
        elif k == "float" and s["v"] != "0x1.0p+0":
            yield _set(spec, path, {"k": "float", "v": "0x1.0p+0"})
    # 3. rename attributes to simple names
    for path, s in nodes:
        if s.get("k") == "obj" and s["cls"] != "AttrsLike":
            names = {n for n, _ in s["attrs"]}
            for i, (n, sub) in enumerate(s["attrs"]):
                if n not in ("a", "b", "c", "d", "e"):
                    new = next(x for x in "abcdefgh" if x not in names)
                    s2 = dict(s)
                    s2["attrs"] = [list(p) for p in s["attrs"]]
                    s2["attrs"][i] = [new, sub]
                    yield _set(spec, path, s2)
            if s["cls"] not in ("Plain",) and path:
                s2 = dict(s)
                s2["cls"] = "Plain"
                yield _set(spec, path, s2)
