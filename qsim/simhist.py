"""E-simhist: helpers for operation-history simulations (C03, C11, C19).

A history is a JSON list of op dicts; arguments are raw integers/floats interpreted modulo the
current state, so deleting earlier operations never makes a later one ill-formed.  Shrinking =
delta-debugging over the op list (and recursively over nested 'body' lists)."""
from __future__ import annotations

import copy


def shrink_history(plan, key="ops"):
    """Yield candidate plans with fewer ops: halves, quarters, then single deletions, then
    simplification of nested bodies."""
    ops = plan[key]
    n = len(ops)
    if n == 0:
        return
    seen = set()
    chunk = n // 2
    while chunk >= 1:
        for start in range(0, n, chunk):
            keep = ops[:start] + ops[start + chunk:]
            sig = (start, chunk)
            if sig in seen or len(keep) == n:
                continue
            seen.add(sig)
            p = copy.deepcopy(plan)
            p[key] = copy.deepcopy(keep)
            yield p
        if chunk == 1:
            break
        chunk //= 2
    # nested bodies: splice the body in place of the block, or shrink it
    for i, op in enumerate(ops):
        if isinstance(op, dict) and isinstance(op.get("body"), list):
            p = copy.deepcopy(plan)
            p[key] = ops[:i] + copy.deepcopy(op["body"]) + ops[i + 1:]
            yield p
            for j in range(len(op["body"])):
                p = copy.deepcopy(plan)
                p[key][i]["body"] = op["body"][:j] + op["body"][j + 1:]
                yield p


def ngrams(kinds, n=3):
    return ["/".join(kinds[i:i + n]) for i in range(max(0, len(kinds) - n + 1))]
