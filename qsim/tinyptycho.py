"""Tiny iterative-ptychography problem used by C05 and C09 (DESIGN appendix A.3): a 6x6 raster of
16x16 patterns simulated by a few lines of NumPy, then quantem's own preprocessing."""
from __future__ import annotations

import warnings

import numpy as np

N = 16
Q_MAX = 0.5
ENERGY = 300e3
C10 = 50.0

_mods = {}


def setup():
    if _mods:
        return _mods
    from . import core

    core.use_repo()
    warnings.filterwarnings("ignore")
    import torch

    torch.set_num_threads(1)
    try:  # tqdm starts a real monitor thread on first use: not wanted in a single-thread simulation
        import tqdm

        tqdm.tqdm.monitor_interval = 0
    except Exception:
        pass
    import quantem.diffractive_imaging.ptychography as pmod
    from quantem.core.datastructures.dataset4dstem import Dataset4dstem
    from quantem.core.utils.utils import electron_wavelength_angstrom
    from quantem.diffractive_imaging.dataset_models import PtychographyDatasetRaster
    from quantem.diffractive_imaging.detector_models import DetectorPixelated
    from quantem.diffractive_imaging.object_models import ObjectPixelated
    from quantem.diffractive_imaging.probe_models import ProbePixelated
    from quantem.diffractive_imaging.ptychography import Ptychography

    class _NoGC:
        """gc.collect() dominates a tiny reconstruction (0.33 of 0.36 s): stubbed out."""

        def __getattr__(self, n):
            import gc

            return getattr(gc, n)

        @staticmethod
        def collect(*a, **k):
            return 0

    if not hasattr(pmod, "gc"):
        raise core.HarnessError("ptychography.py lost its module-level gc name")
    pmod.gc = _NoGC()
    _mods.update(torch=torch, pmod=pmod, Dataset4dstem=Dataset4dstem,
                 wavelength=electron_wavelength_angstrom, Raster=PtychographyDatasetRaster,
                 Detector=DetectorPixelated, Obj=ObjectPixelated, Probe=ProbePixelated,
                 Ptychography=Ptychography)
    return _mods


def probe_array(n_modes=1):
    m = setup()
    sampling = 1 / Q_MAX / 2
    rs = 2 * Q_MAX / N
    qx = qy = np.fft.fftfreq(N, sampling)
    q = np.sqrt(qx[:, None] ** 2 + qy[None, :] ** 2)
    ap = np.sqrt(np.clip((Q_MAX / 2 - q) / rs + 0.5, 0, 1))
    chi = q ** 2 * m["wavelength"](ENERGY) * np.pi * C10
    pf = ap * np.exp(-1j * chi)
    pf /= np.sqrt(np.sum(np.abs(pf) ** 2))
    p = np.fft.ifft2(pf) * N
    if n_modes == 1:
        return p
    modes = [p]
    for k in range(1, n_modes):
        ramp = np.exp(2j * np.pi * k * np.arange(N)[:, None] / N)
        modes.append(p * ramp * 0.5)
    return np.stack(modes, 0)


def make_dataset(seed, scan=(6, 6), step=2, bilinear=False, descan=(0.0, 0.0), com_fit="constant",
                 det_mask=None):
    """-> preprocessed PtychographyDatasetRaster.  descan: constant sub-pixel shift of every pattern on
    the detector (then the fitted origin has a fractional part and the interpolation used to centre
    the patterns - Fourier or bilinear - matters)"""
    m = setup()
    g = np.random.default_rng(seed)
    sx, sy = scan
    obj_n = N + step * max(sx, sy)
    noise = g.random((obj_n, obj_n))
    noise -= noise.mean()
    obj = np.exp(1j * noise.astype(np.float32))
    probe = probe_array(1)
    x = np.arange(0.0, sx * step, step)
    y = np.arange(0.0, sy * step, step)
    xx, yy = np.meshgrid(x, y, indexing="ij")
    pos = np.stack((xx.ravel(), yy.ravel()), -1)
    x0 = np.round(pos[:, 0]).astype(int)
    y0 = np.round(pos[:, 1]).astype(int)
    xi = np.fft.fftfreq(N, d=1 / N).astype(int)
    row = (x0[:, None, None] + xi[None, :, None]) % obj_n
    col = (y0[:, None, None] + xi[None, None, :]) % obj_n
    ew = obj[row, col] * probe
    inten = np.abs(np.fft.fft2(ew)) ** 2
    if tuple(descan) != (0.0, 0.0):
        from scipy.ndimage import shift as _shift

        inten = np.stack([np.fft.ifftshift(_shift(np.fft.fftshift(p_), descan, order=1, mode="wrap"))
                          for p_ in inten])
    rs = 2 * Q_MAX / N
    s = 1 / Q_MAX / 2
    d4 = m["Dataset4dstem"].from_array(
        array=np.fft.fftshift(inten * 100, axes=(-2, -1)).reshape((sx, sy, N, N)).astype(np.float32),
        sampling=(step * s, step * s, rs, rs), units=("A", "A", "A^-1", "A^-1"))
    mkw = {}
    if det_mask:
        # a user-supplied detector mask: beam stop in the centre of the detector, or scattered dead pixels
        mask = np.ones((N, N), np.float32)
        if det_mask == "beamstop":
            mask[N // 2 - 2: N // 2 + 2, N // 2 - 2: N // 2 + 2] = 0
        else:
            mask[1::5, 2::3] = 0
        mkw["detector_mask"] = mask
    pd = m["Raster"].from_dataset4dstem(d4, verbose=0, **mkw)
    pd.preprocess(com_fit_function=com_fit, plot_rotation=False, plot_com=False,
                  probe_energy=ENERGY, force_com_rotation=0, force_com_transpose=False,
                  bilinear=bool(bilinear))
    return pd


def make_ptycho(seed, obj_type="complex", num_slices=1, n_modes=1, rng=42, scan=(6, 6), cls=None,
                probe_tilt=None, dset_opts=None):
    m = setup()
    pd = make_dataset(seed, scan=scan, **(dset_opts or {}))
    obj_model = m["Obj"].from_uniform(num_slices=num_slices, obj_type=obj_type,
                                      slice_thicknesses=1 if num_slices == 1 else 2.0,
                                      rng=int(rng) + 1 if isinstance(rng, int) else rng)
    params = {"energy": ENERGY, "C10": C10,
              "semiangle_cutoff": m["wavelength"](ENERGY) * 1e3 * Q_MAX / 2}
    pa = probe_array(n_modes)
    tkw = {} if probe_tilt is None else {"probe_tilt": tuple(probe_tilt), "learn_probe_tilt": True}
    probe_model = m["Probe"].from_array(num_probes=n_modes, probe_params=params, probe_array=pa,
                                        rng=int(rng) + 2 if isinstance(rng, int) else rng, **tkw)
    det = m["Detector"]()
    P = cls or m["Ptychography"]
    pt = P.from_models(dset=pd, obj_model=obj_model, probe_model=probe_model, detector_model=det,
                       rng=rng, verbose=0)
    pt.preprocess(obj_padding_px=(0, 0), plot_rotation=False, plot_com=False) if _accepts_plot(
        pt.preprocess) else pt.preprocess(obj_padding_px=(0, 0))
    return pt


def _accepts_plot(fn):
    import inspect

    try:
        return "plot_rotation" in inspect.signature(fn).parameters
    except (TypeError, ValueError):
        return False
