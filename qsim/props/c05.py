"""C05 — checkpoint / resume / clone equivalence for iterative ptychography.
Engine: E-simio (save/load under the simulated zarr loop, restart) + E-simsched twin instances."""
from __future__ import annotations

import copy
import gc
import hashlib
import os

import numpy as np

from .. import serio, tinyptycho
from ..core import HarnessError, Rng, Violation, bump, new_result, plan_digest
from ..simloop import Sim

ID = "C05"
LEVEL = "exploration"
ENGINE = "simio+simsched"
TIERS = {
    "quick": {"runs": 1280, "budget_s": 80, "chunk": 2},
    "thorough": {"runs": 16000, "budget_s": 1500, "chunk": 4},
}
RULE = ("one evaluation = one seeded configuration (object type complex/pure_phase/potential, 1-2 "
        "slices, 1-2 probe modes, optimizer sgd/sgd+momentum/adam/adamw x lr, optimised subset of "
        "{object, probe, dataset}, optimizer hyper-parameters (momentum, nesterov, dampening, betas, "
        "amsgrad, weight_decay, eps), scheduler none/exp/linear/cyclic/plateau with sub-options "
        "(cyclic mode and momentum cycling, plateau patience/cooldown/factor, linear factors), "
        "constraints, snapshots, first segments of up to 110 iterations, "
        "store zip/dir, compression level, I/O schedule) of a tiny ptychography problem built TWICE: "
        "U runs uninterrupted, R receives the same reconstruct calls interleaved with 2-5 "
        "interruptions (save with data + restart + from_file | clone | clone with failing deepcopy "
        "-> save/reload fallback), incl. split at iteration 0, adjacent interruptions and "
        "interruption of a clone. Right after each interruption the new R is compared exactly with "
        "the old R on what the statement lists; after each later reconstruct R is compared with U. "
        "distinct_nontrivial = distinct (configuration, history) digests with >= 1 interruption "
        "followed by >= 1 iteration.")
SCHED_MEASURE = "distinct (interruption kinds sequence, optimizer, scheduler) signatures"
ASSUMPTIONS = [
    "full-batch updates only (mini-batch order is re-seeded on load: outside the claim); raw data is "
    "saved with the object (save_raw_data=True)",
    "relative tolerance 1e-5 on loss history, object and probe after continuing (HEAD typically "
    "deviates <= 7e-7); a larger deviation counts only if it exceeds 1e-5 + 20x the drift of two twins "
    "that were perturbed by 2 ulp at the same interruption points (round-off amplified by rounded "
    "scan positions / normalised Adam steps is not a lost state); exact equality right after an "
    "interruption",
    "optimizer/scheduler state and parameter binding are diagnostics that label a divergence, never "
    "violations by themselves (an implementation that re-binds lazily would be correct)",
    "I/O faults are C08's subject: saves here are fault-free, only the I/O schedule varies",
]
COMPONENTS_REAL = ["Ptychography.reconstruct/save/from_file/clone/to", "object/probe/dataset/detector "
                   "models of the tiny problem", "optimizer_mixin (set_optimizer, set_scheduler, "
                   "reconnect_optimizer_to_parameters)", "torch.optim + lr_scheduler",
                   "quantem.core.io.serialize + zarr 3.4 + zipfile + torch.save/load"]
COMPONENTS_STUB = ["zarr sync()/loop thread/thread pool -> SimLoop", "LocalStore -> SimStore",
                   "copy.deepcopy in ptychography.py -> raises when armed (forces the fallback)",
                   "tempfile.gettempdir in ptychography.py -> sandbox", "gc.collect in reconstruct"]
EXPECTED_PROBES = ["split_at_zero", "double_interrupt", "clone_then_save", "clone_fallback_path_taken",
                   "plateau_scheduler_reduced_lr", "dataset_optimizer_present", "reload_zip",
                   "reload_dir", "opt_sgd", "opt_adam", "opt_adamw", "sched_cyclic", "sched_linear",
                   "sched_exp", "obj_potential", "obj_pure_phase", "modes2", "slices2", "sched_cyclic_momentum", "sched_plateau_with_counters", "opt_extra_betas", "opt_extra_amsgrad", "opt_extra_weight_decay", "opt_extra_nesterov", "long_first_segment", "reload_in_another_interpreter", "device_move_cpu_to_cpu",
                   "learnable_probe_tilt", "bilinear_centring_of_subpixel_origin",
                   "clone_independence_checked", "clone_fallback_natural",
                   "save_then_continue_same_object", "reset_after_interruption"]
RTOL = 1e-5   # candidate threshold; a candidate is a violation only beyond NOISE_FACTOR x measured drift
_ctx = {}


class _CopyProxy:
    armed = False

    def __getattr__(self, n):
        return getattr(copy, n)

    def deepcopy(self, x, memo=None):
        if _CopyProxy.armed:
            _CopyProxy.armed = False
            _ctx["fallback_taken"] = _ctx.get("fallback_taken", 0) + 1
            raise RuntimeError("injected: object cannot be deep-copied")
        return copy.deepcopy(x, memo)


class _TempfileProxy:
    def __getattr__(self, n):
        import tempfile

        return getattr(tempfile, n)

    @staticmethod
    def gettempdir():
        s = Sim.current
        if s is not None and getattr(s, "io", None) is not None:
            return s.io.tmp_root
        import tempfile

        return tempfile.gettempdir()


_SETUP_DONE = []


RULE = RULE + " Rounds 14-16: 1-3 constraint overrides drawn from the library's whole object/probe constraint tables incl. explicit falsy values of truthy defaults; 3-4 probe modes; clip_scan_positions=False with centring; a checkpoint that FAILS part-way (store error at the k-th operation, possibly sticky) after which the same live object carries on."


def setup():
    if _SETUP_DONE:
        return
    _SETUP_DONE.append(1)
    serio.setup()
    m = tinyptycho.setup()
    pmod = m["pmod"]
    for name in ("copy", "tempfile"):
        if not hasattr(pmod, name):
            raise HarnessError(f"ptychography.py lost its module-level name {name}")
    pmod.copy = _CopyProxy()
    pmod.tempfile = _TempfileProxy()
    pmod.print = lambda *a, **k: None
    _ctx["m"] = m
    # warm-up before forking
    pt = tinyptycho.make_ptycho(0)
    pt.reconstruct(num_iters=1, reset=True, optimizer_params={"object": {"type": "sgd", "lr": 1e-3}})


# ------------------------------------------------------------------------------------------
def _gen_sched(r, kind, opt_kind="adam"):
    """Scheduler parameters incl. the sub-options set_scheduler forwards (a scheduler may carry
    state or rewrite optimizer settings other than the lr: CyclicLR(cycle_momentum=True) rewrites
    momentum / beta1 every step; ReduceLROnPlateau counts bad epochs and cooldown)."""
    x = r.fork("subopts")
    if kind == "none":
        return {"type": "none"}
    if kind == "exp":
        return {"type": "exp", "gamma": r.pick([0.9, 0.7])}
    if kind == "linear":
        return {"type": "linear", "start_factor": x.pick([0.2, 0.2, 0.5, 1.0]),
                "end_factor": x.pick([1.0, 1.0, 0.1]), "total_iters": r.pick([3, 6])}
    if kind == "cyclic":
        d = {"type": "cyclic", "step_size_up": r.pick([2, 3]), "step_size_down": 2}
        if x.chance(0.5):
            d["mode"] = x.pick(["triangular", "triangular2", "exp_range"])
        if opt_kind != "sgd" and x.chance(0.45):
            d["momentum"] = True      # cycle_momentum: needs momentum / beta1 in the optimizer
        return d
    return {"type": "plateau", "patience": x.pick([0, 0, 1, 2]), "cooldown": x.pick([0, 0, 1, 3]),
            "threshold": r.pick([0.5, 0.05]), "factor": x.pick([0.5, 0.5, 0.1])}


def _gen_opt_extra(r, opt_kind):
    """Optimizer hyper-parameters other than the lr (forwarded verbatim to torch.optim)."""
    d = {}
    if opt_kind == "sgd":
        if r.chance(0.3):
            d["weight_decay"] = 1e-3
    elif opt_kind == "sgd_momentum":
        d["momentum"] = r.pick([0.9, 0.9, 0.5])
        k = r.pick(["plain", "plain", "nesterov", "dampening"])
        if k == "nesterov":
            d["nesterov"] = True
        elif k == "dampening":
            d["dampening"] = 0.1
        if r.chance(0.25):
            d["weight_decay"] = 1e-3
    else:
        if r.chance(0.3):
            d["betas"] = r.pick([[0.8, 0.95], [0.5, 0.9]])
        if r.chance(0.25):
            d["amsgrad"] = True
        if r.chance(0.25):
            d["weight_decay"] = r.pick([1e-2, 1e-3])
        if r.chance(0.15):
            d["eps"] = 1e-6
    return d


def gen(rng: Rng, tier, i):
    opt_kind = rng.pick(["sgd", "sgd_momentum", "adam", "adamw"])
    keys = rng.pick([["object", "probe"], ["object"], ["object", "probe", "dataset"], ["probe"],
                     ["object", "probe"]])
    sched = rng.pick(["none", "exp", "linear", "cyclic", "plateau"])
    cfg = {"data_seed": rng.randrange(1000), "scan": rng.pick([[6, 6], [4, 6], [5, 5]]),
           "obj_type": rng.pick(["complex", "pure_phase", "potential"]), "slices": rng.pick([1, 1, 2]),
           "modes": rng.pick([1, 1, 2]), "opt": opt_kind, "keys": keys,
           "lr": {"object": rng.pick([5e-3, 2e-2]), "probe": rng.pick([1e-3, 5e-3]),
                  "dataset": rng.pick([1e-3, 1e-2])},
           "sched": {k: _gen_sched(rng.fork(("s", k)), sched if rng.chance(0.8) else "none", opt_kind)
                     for k in keys},
           "opt_extra": {k: _gen_opt_extra(rng.fork(("ox", k)), opt_kind) for k in keys},
           "constraints": rng.pick([{}, {"probe": {"orthogonalize_probe": False}},
                                    {"object": {"tv_weight_xy": 1e-3}},
                                    {"probe": {"center_probe": True}, "object": {"positivity": True}}])
           if rng.chance(0.75) else rng.fork("cons2").pick([
               {"dataset": {"descan_shifts_constant": True}}, {"dataset": {"descan_tv_weight": 0.1}},
               {"dataset": {"center_scan_positions": True}}, {"probe": {"tv_weight": 0.1}},
               {"object": {"surface_zero_weight": 0.1}}, {"object": {"tv_weight_xy": 1.0, "tv_weight_z": 1.0}},
               {"object": {"identical_slices": True}}]),
           # (overridden below when the dataset model is optimised)
           # validation split made by Ptychography.preprocess / attributes (deterministic grid mode)
           "val_ratio": rng.fork("val").pick([0.0, 0.0, 0.25, 0.5, 0.2]),
           # a learnable probe tilt (second probe parameter; acts through the multislice propagators;
           # a zero tilt never receives a gradient)
           # how the DATASET was preprocessed (state that is derived at preprocess time and has to
           # survive a reload): interpolation used for centring, sub-pixel descan, fit function
           "dset": rng.fork("dset").pick([None] * 4 + [
               {"bilinear": True, "descan": [0.37, -0.42]}, {"bilinear": False, "descan": [0.37, -0.42]},
               {"bilinear": True, "descan": [0.0, 0.0]},
               {"bilinear": True, "descan": [-0.6, 0.25], "com_fit": "plane"}]),
           "probe_tilt": rng.fork("tilt").pick([None] * 5 + [[0.0, 0.0], [2.0, -1.0], [0.0, 1.5]]),
           "snapshots": rng.pick([None, None, 1, 2]), "rng": rng.randrange(10 ** 6),
           "loss": rng.pick(["l2_amplitude", "l2_amplitude", "l1_amplitude", "l2_intensity"])
           if rng.chance(0.8) else rng.fork("loss2").pick(["poisson", "l1_intensity"]),
           "autograd": rng.fork("autograd").pick([True, True, False])}
    dc = rng.fork("dataset_cons")
    if "dataset" in keys and dc.chance(0.4):
        # constraints of the dataset model matter when it is optimised: a parameter that never
        # receives a gradient (constant descan), regularised descan, re-centred positions
        cfg["constraints"] = dc.pick([{"dataset": {"descan_shifts_constant": True}},
                                      {"dataset": {"descan_tv_weight": 0.1}},
                                      {"dataset": {"center_scan_positions": True}},
                                      {"dataset": {"descan_shifts_constant": True},
                                       "object": {"tv_weight_xy": 1e-3}},
                                      # (clip_scan_positions=False ALONE cannot be run at all at the
                                      # pinned commit: apply_hard_constraints then assigns the
                                      # nn.Parameter to its own property -> KeyError from nn.Module;
                                      # not a resume matter, DESIGN 9.3 observations)
                                      {"dataset": {"clip_scan_positions": False,
                                                   "center_scan_positions": True}}])
    m3 = rng.fork("modes3")
    if m3.chance(0.2):
        # more than two probe modes (round 15, S-C05o: anything that orders / pairs / sorts modes is
        # invisible with one or two)
        cfg["modes"] = m3.pick([3, 3, 4])
    c3 = rng.fork("cons3")
    if c3.chance(0.3):
        # ANY override of the library's constraint tables has to survive an interruption, in particular
        # an explicitly falsy value whose default is truthy and vice versa (round 14, S-C05n): 1-3
        # overrides drawn from the whole table instead of the short hand-picked list above
        table = {"object": [["positivity", False], ["fix_potential_baseline", True],
                            ["fix_potential_baseline_factor", 0.5], ["identical_slices", True],
                            ["tv_weight_z", 0.1], ["tv_weight_xy", 0.1],
                            ["surface_zero_weight", 0.1], ["gaussian_sigma", 0.8], ["butterworth_order", 2],
                            ["q_lowpass", 0.5], ["q_highpass", 0.05], ["tv_weight_xy", 0],
                            ["gaussian_sigma", None], ["positivity", False]],
                 "probe": [["orthogonalize_probe", False], ["center_probe", True], ["tv_weight", 0.1],
                           ["tv_weight", 0.0], ["center_probe", False]]}
        cons = {k: dict(v) for k, v in (cfg["constraints"] or {}).items() if k == "dataset"}
        for _ in range(c3.pick([1, 1, 2, 3])):
            model = c3.pick(["object", "object", "probe"])
            k_, v_ = c3.pick(table[model])
            cons.setdefault(model, {})[k_] = v_
        cfg["constraints"] = cons
    ops = [{"op": "recon", "n": rng.pick([0, 1, 2, 3, 4])}]
    lng = rng.fork("long")
    if lng.chance(0.04):      # something that only matters after many iterations
        ops[0]["n"] = lng.pick([12, 30, 60, 110])
        if tier == "thorough" and lng.chance(0.12):
            # beyond a thousand recorded iterations (thorough tier only: ~30 s per run); no per-iteration
            # snapshots, they would dominate
            ops[0]["n"] = 1003
            cfg["snapshots"] = None
    for j in range(rng.pick([2, 3, 4, 5])):
        r = rng.fork(("op", j))
        k = r.weighted([("recon", 4), ("reload", 4), ("clone", 2), ("clone_fallback", 1),
                        ("save_keep", 1), ("recon_reset", 0.5), ("to_cpu", 0.8), ("save_fail_keep", 1)])
        if k == "recon":
            ops.append({"op": "recon", "n": r.pick([1, 1, 2, 3])})
        elif k == "recon_reset":
            ops.append({"op": "recon", "n": r.pick([1, 2]), "reset": True})
        elif k == "save_keep":
            ops.append({"op": "save_keep", "store": r.pick(["zip", "dir"]), "level": r.pick([None, 4])})
        elif k == "save_fail_keep":
            # a checkpoint that FAILS part-way (disk full at the k-th store operation, maybe for the
            # rest of the call), after which the user carries on with the same live object
            ops.append({"op": "save_fail_keep", "store": r.pick(["zip", "dir"]), "level": r.pick([None, 4]),
                        "k": r.pick([0, 1, 2, 5, 9, 17, 33, 60, 110, 200, 400]),
                        "when": r.pick(["before", "after"]), "sticky": r.chance(0.4),
                        "errno": r.pick(["ENOSPC", "EIO", "MemoryError", "ValueError"])})
        elif k == "reload":
            ops.append({"op": "reload", "store": r.pick(["zip", "dir"]), "level": r.pick([None, 0, 4, 9]),
                        "path_kind": r.pick(["str", "Path"])})
        else:
            ops.append({"op": k})
    if ops[-1]["op"] != "recon":
        ops.append({"op": "recon", "n": rng.pick([1, 2, 3])})
    return {"cfg": cfg, "ops": ops, "env": serio.gen_env(rng.fork("env")),
            # the first reload is repeated in a FRESH interpreter with another string-hash salt, which
            # then continues for two iterations: must equal the same continuation in this process
            "other_interpreter": rng.fork("interp").pick([None] * 14 + [1, 777])}


def _opt_params(cfg):
    out = {}
    for k in cfg["keys"]:
        if cfg["opt"] == "sgd":
            out[k] = {"type": "sgd", "lr": cfg["lr"][k]}
        elif cfg["opt"] == "sgd_momentum":
            out[k] = {"type": "sgd", "lr": cfg["lr"][k], "momentum": 0.9}
        else:
            out[k] = {"type": cfg["opt"], "lr": cfg["lr"][k]}
        for a, b in (cfg.get("opt_extra") or {}).get(k, {}).items():
            out[k][a] = tuple(b) if isinstance(b, list) else b
    return out


def _build(cfg):
    pt = tinyptycho.make_ptycho(cfg["data_seed"], obj_type=cfg["obj_type"], num_slices=cfg["slices"],
                                n_modes=cfg["modes"], rng=cfg["rng"], scan=tuple(cfg["scan"]),
                                probe_tilt=cfg.get("probe_tilt") if cfg["slices"] == 2 else None,
                                dset_opts=cfg.get("dset"))
    if cfg.get("val_ratio"):
        pt.val_ratio = cfg["val_ratio"]      # what preprocess(val_ratio=...) stores
        pt.val_mode = "grid"                 # deterministic split (a random one is re-seeded on load)
    return pt


def _deep_eq(a, b):
    """Exact recursive equality for the 'constraints' / 'iter_lrs' dictionaries."""
    import torch

    if isinstance(a, dict) and isinstance(b, dict):
        return set(a) == set(b) and all(_deep_eq(a[k], b[k]) for k in a)
    if isinstance(a, (list, tuple)) and isinstance(b, (list, tuple)):
        return len(a) == len(b) and all(_deep_eq(x, y) for x, y in zip(a, b))
    if isinstance(a, torch.Tensor) or isinstance(b, torch.Tensor):
        return isinstance(a, torch.Tensor) and isinstance(b, torch.Tensor) and a.shape == b.shape and \
            bool(torch.equal(a, b))
    if isinstance(a, np.ndarray) or isinstance(b, np.ndarray):
        return np.array_equal(np.asarray(a), np.asarray(b), equal_nan=True)
    try:
        return bool(a == b) or (a != a and b != b)
    except Exception:
        return False


def _state(pt):
    return {"num_iters": int(pt.num_iters), "iter_losses": np.asarray(pt.iter_losses, float).copy(),
            "val_losses": np.asarray(pt.val_iter_losses, float).copy(),
            "val_split": (float(pt.val_ratio), str(pt.val_mode)),
            "iter_lrs": {k: np.asarray(v, float).copy() for k, v in pt.iter_lrs.items()},
            "constraints": copy.deepcopy(pt.constraints), "obj": np.array(pt.obj, copy=True),
            "probe": np.array(pt.probe, copy=True)}


def _summary(pt):
    st = _state(pt)
    return {"num_iters": st["num_iters"], "iter_losses": st["iter_losses"].tolist(),
            "val_losses": st["val_losses"].tolist(), "val_split": list(st["val_split"]),
            "iter_lrs": {k: v.tolist() for k, v in st["iter_lrs"].items()},
            "obj": np.stack([st["obj"].real, st["obj"].imag]).astype(float).tolist(),
            "probe": np.stack([st["probe"].real, st["probe"].imag]).astype(float).tolist()}


def _continue_kw(cfg):
    return {"num_iters": 2, "loss_type": cfg["loss"], "autograd": cfg.get("autograd", True)}


def child_reload_and_continue(req):
    """Executed in a fresh interpreter (python -m qsim.c05child)."""
    P = _ctx["m"]["Ptychography"]
    env2 = dict(req["env"], sched_seed=req["env"].get("sched_seed", 0) + 3)
    with serio.SerEnv(env2) as E:
        pt, exc, _ = E.call(lambda: P.from_file(req["path"]))
        if exc is not None:
            return {"error": repr(exc)}
        s0 = _summary(pt)
        pt.reconstruct(**_continue_kw(req["cfg"]))
        return {"loaded": s0, "continued": _summary(pt)}


def _other_interpreter(req, hashseed):
    import json
    import subprocess
    import sys

    from .. import core

    env = dict(os.environ, PYTHONHASHSEED=str(hashseed), VERIF_REPO=core.REPO,
               PYTHONPATH=core.VERIF_DIR + os.pathsep + os.environ.get("PYTHONPATH", ""))
    out = subprocess.run([sys.executable, "-m", "qsim.c05child"], input=json.dumps(req), text=True,
                         capture_output=True, env=env, cwd=core.VERIF_DIR, timeout=900)
    lines = [ln for ln in out.stdout.splitlines() if ln.startswith("RESULT ")]
    if out.returncode != 0 or not lines:
        raise HarnessError(f"other-interpreter reload failed (rc {out.returncode}): {out.stderr[-400:]}")
    return json.loads(lines[-1][7:])


def _summary_diff(a, b, rtol=1e-6):
    out = []
    if a["num_iters"] != b["num_iters"]:
        out.append(f"num_iters {a['num_iters']} vs {b['num_iters']}")
    if a["val_split"] != b["val_split"]:
        out.append("val_split")
    for k in ("iter_losses", "val_losses", "obj", "probe"):
        e = _rel(np.asarray(a[k], float), np.asarray(b[k], float))
        if e > rtol:
            out.append(f"{k} (rel.dev {e:.3g})")
    if set(a["iter_lrs"]) != set(b["iter_lrs"]) or any(
            _rel(np.asarray(a["iter_lrs"][k], float), np.asarray(b["iter_lrs"][k], float)) > rtol
            for k in a["iter_lrs"] if k in b["iter_lrs"]):
        out.append("iter_lrs")
    return out


def _cmp_exact(old, new):
    out = []
    if old["num_iters"] != new["num_iters"]:
        out.append(f"num_iters {old['num_iters']}->{new['num_iters']}")
    # equal_nan: a configuration that has run into NaN has lost nothing by carrying the NaN along
    if not np.array_equal(old["iter_losses"], new["iter_losses"], equal_nan=True):
        out.append("iter_losses")
    if not np.array_equal(old["val_losses"], new["val_losses"], equal_nan=True):
        out.append("val_iter_losses")
    if old["val_split"] != new["val_split"]:
        out.append(f"val_split {old['val_split']}->{new['val_split']}")
    if set(old["iter_lrs"]) != set(new["iter_lrs"]) or any(
            not np.array_equal(old["iter_lrs"][k], new["iter_lrs"][k]) for k in old["iter_lrs"]
            if k in new["iter_lrs"]):
        out.append("iter_lrs")
    if not _deep_eq(old["constraints"], new["constraints"]):
        out.append("constraints")
    for k in ("obj", "probe"):
        if old[k].shape != new[k].shape or old[k].dtype != new[k].dtype or \
                old[k].tobytes() != new[k].tobytes():
            out.append(k)
    return out


def _rel(a, b):
    a, b = np.asarray(a), np.asarray(b)
    if a.shape != b.shape:
        return float("inf")
    return float(np.abs(a - b).max() / (np.abs(b).max() + 1e-30)) if a.size else 0.0


def _diagnostics(pt):
    """Labels for a divergence (never decide): is the optimizer bound to the model's parameters?"""
    d = []
    try:
        for name, mod in (("object", pt.obj_model), ("probe", pt.probe_model), ("dataset", pt.dset)):
            opt = mod.optimizer
            if opt is None:
                continue
            params = mod.get_optimization_parameters()
            import torch

            params = [params] if isinstance(params, torch.Tensor) else list(params)
            bound = {id(p) for g in opt.param_groups for p in g["params"]}
            if not all(id(p) in bound for p in params):
                d.append(f"{name}: optimizer not bound to the model's parameters")
            if mod.scheduler is not None and getattr(mod.scheduler, "optimizer", opt) is not opt:
                d.append(f"{name}: scheduler points at another optimizer")
            if not opt.state and pt.num_iters > 0 and type(opt).__name__ != "SGD":
                d.append(f"{name}: optimizer state empty")
    except Exception as e:  # renamed internals degrade to 'not checked'
        d.append(f"diagnostics unavailable: {e!r}")
    return d


def _perturb(pt, eps):
    """Scale every optimised parameter by (1 + eps): a couple of float32 ulps."""
    import torch

    with torch.no_grad():
        for mod in (pt.obj_model, pt.probe_model, pt.dset):
            if mod.optimizer is None:
                continue
            ps = mod.get_optimization_parameters()
            for p_ in ([ps] if isinstance(ps, torch.Tensor) else list(ps)):
                p_.mul_(1.0 + eps)
                # parameters that are exactly zero (a 'potential' object before its first update,
                # zero descan shifts) are not moved by a relative perturbation: add an absolute one
                # of the same order relative to a unit scale
                p_.add_(eps * max(float(p_.abs().max()), 1e-2))


def _noise_scale(plan, upto):
    """How far do runs that differ by ~2 ulp at the interruption points drift apart in THIS
    configuration?  Re-runs the uninterrupted history three times (U', P+, P-), perturbing P+/P- where
    R was interrupted, and returns the largest deviation per quantity after op index `upto`.
    Only called when a candidate divergence was seen (rare), to tell a lost state from round-off
    amplified by a discontinuity (patch indices follow rounded scan positions) or by Adam's
    normalised steps."""
    cfg = plan["cfg"]
    twins = [_build(cfg), _build(cfg), _build(cfg)]
    eps = [0.0, 2.0 ** -22, -(2.0 ** -22)]
    first = True
    for j, op in enumerate(plan["ops"][: upto + 1]):
        if op["op"] == "recon":
            kw = {"num_iters": op["n"], "loss_type": cfg["loss"], "autograd": cfg.get("autograd", True)}
            if cfg["snapshots"]:
                kw["store_snapshots_every"] = cfg["snapshots"]
            for X in twins:
                kw2 = dict(kw)
                if first:
                    kw2.update(reset=True, optimizer_params=copy.deepcopy(_opt_params(cfg)),
                               scheduler_params=copy.deepcopy(cfg["sched"]),
                               constraints=copy.deepcopy(cfg["constraints"]))
                X.reconstruct(**kw2)
            first = False
        elif not first:
            for X, e in zip(twins, eps):
                if e:
                    _perturb(X, e)
    su = _state(twins[0])
    out = {"loss": 0.0, "lr": 0.0, "obj": 0.0, "probe": 0.0, "val_loss": 0.0}
    for X in twins[1:]:
        sx = _state(X)
        out["loss"] = max(out["loss"], _rel(sx["iter_losses"], su["iter_losses"]))
        if su["val_losses"].size and su["val_losses"].shape == sx["val_losses"].shape:
            out["val_loss"] = max(out["val_loss"], _rel(sx["val_losses"], su["val_losses"]))
        for key in su["iter_lrs"]:
            if key in sx["iter_lrs"]:
                out["lr"] = max(out["lr"], _rel(sx["iter_lrs"][key], su["iter_lrs"][key]))
        for key in ("obj", "probe"):
            out[key] = max(out[key], _rel(sx[key], su[key]))
    return out


NOISE_FACTOR = 20.0


def run(plan):
    m = _ctx["m"]
    P = m["Ptychography"]
    res = new_result()
    probes = res["probes"]
    cfg = plan["cfg"]

    def viol(oracle, detail, sig):
        res["violations"].append(Violation(oracle, detail, sig))

    bump(probes, "opt_" + cfg["opt"].split("_")[0])
    for k, s in cfg["sched"].items():
        if s["type"] != "none":
            bump(probes, "sched_" + s["type"])
        if s.get("momentum"):
            bump(probes, "sched_cyclic_momentum")
        if s["type"] == "plateau" and (s.get("patience") or s.get("cooldown")):
            bump(probes, "sched_plateau_with_counters")
    for k, ox in (cfg.get("opt_extra") or {}).items():
        for a in ox:
            if a != "momentum":
                bump(probes, "opt_extra_" + a)
    if plan["ops"][0].get("n", 0) >= 12:
        bump(probes, "long_first_segment")
    if plan["ops"][0].get("n", 0) > 1000:
        bump(probes, "more_than_1000_iterations")
    if not cfg.get("autograd", True):
        bump(probes, "analytic_gradients")
    if cfg.get("val_ratio"):
        bump(probes, "validation_split")
    if cfg.get("dset"):
        bump(probes, "dataset_preprocessing_options")
        if cfg["dset"].get("bilinear") and tuple(cfg["dset"].get("descan", (0, 0))) != (0.0, 0.0):
            bump(probes, "bilinear_centring_of_subpixel_origin")
    if cfg.get("probe_tilt") is not None and cfg["slices"] == 2:
        bump(probes, "learnable_probe_tilt")
    if cfg["modes"] >= 3:
        bump(probes, "modes_ge3")
    if "dataset" in (cfg.get("constraints") or {}):
        bump(probes, "dataset_constraints")
    _truthy_default = {"positivity", "orthogonalize_probe", "butterworth_order", "fix_potential_baseline_factor"}
    for _m, _d in (cfg.get("constraints") or {}).items():
        for _k, _v in _d.items():
            if _m != "dataset" and (bool(_v) != (_k in _truthy_default)):
                bump(probes, "constraint_truthiness_differs_from_default")
                break
    if cfg["loss"] in ("poisson", "l1_intensity"):
        bump(probes, "loss_" + cfg["loss"])
    if cfg["obj_type"] != "complex":
        bump(probes, "obj_" + cfg["obj_type"])
    if cfg["modes"] == 2:
        bump(probes, "modes2")
    if cfg["slices"] == 2:
        bump(probes, "slices2")
    if "dataset" in cfg["keys"]:
        bump(probes, "dataset_optimizer_present")
    _CopyProxy.armed = False
    _ctx["fallback_taken"] = 0
    try:
        U, R = _build(cfg), _build(cfg)
    except Exception as e:
        viol("op_raised", f"building the problem raised {e!r}", f"op_raised:build:{type(e).__name__}")
        res["digest"] = plan_digest(plan)
        return res
    first = True
    interrupted = 0
    iters_after_interrupt = 0
    last_was_interrupt = False
    after_clone = False
    did_other = [False]
    kinds = []
    diverged = False
    with serio.SerEnv(plan["env"]) as E:
        for j, op in enumerate(plan["ops"]):
            k = op["op"]
            tag = f"op#{j}:{k}"
            kinds.append(k)
            try:
                if k == "recon":
                    kw = {"num_iters": op["n"], "loss_type": cfg["loss"], "autograd": cfg.get("autograd", True)}
                    if cfg["snapshots"]:
                        kw["store_snapshots_every"] = cfg["snapshots"]
                    restart = first or op.get("reset")
                    if restart:
                        kw.update(reset=True, optimizer_params=None, scheduler_params=None,
                                  constraints=None)
                        if op["n"] == 0:
                            bump(probes, "split_at_zero")
                        if not first:
                            bump(probes, "reset_after_interruption" if interrupted else "reset_rerun")
                    for X in (U, R):
                        kw2 = dict(kw)
                        if restart:
                            kw2["optimizer_params"] = copy.deepcopy(_opt_params(cfg))
                            kw2["scheduler_params"] = copy.deepcopy(cfg["sched"])
                            kw2["constraints"] = copy.deepcopy(cfg["constraints"])
                        X.reconstruct(**kw2)
                    first = False
                    last_was_interrupt = False
                    if interrupted:
                        iters_after_interrupt += op["n"]
                    res["steps"] += 2 * op["n"]
                    lr = U.iter_lrs
                    if any(s["type"] == "plateau" for s in cfg["sched"].values()):
                        for key, v in lr.items():
                            if len(v) > 1 and v[-1] < v[0] and cfg["sched"].get(key, {}).get(
                                    "type") == "plateau":
                                bump(probes, "plateau_scheduler_reduced_lr")
                                break
                    # ---- oracle 2: R continues exactly as U
                    if interrupted and not diverged:
                        su, sr = _state(U), _state(R)
                        bad = []      # hard: structure differs
                        soft = {}     # numeric deviations above RTOL, per quantity
                        if su["num_iters"] != sr["num_iters"]:
                            bad.append(f"num_iters {su['num_iters']} vs {sr['num_iters']}")
                        e = _rel(sr["iter_losses"], su["iter_losses"])
                        if e > RTOL:
                            soft["loss"] = e
                        if su["val_losses"].shape != sr["val_losses"].shape:
                            bad.append(f"validation losses recorded: {len(su['val_losses'])} vs "
                                       f"{len(sr['val_losses'])}")
                        elif su["val_losses"].size and _rel(sr["val_losses"], su["val_losses"]) > RTOL:
                            soft["val_loss"] = _rel(sr["val_losses"], su["val_losses"])
                        if su["val_split"] != sr["val_split"]:
                            bad.append(f"validation split {su['val_split']} vs {sr['val_split']}")
                        if set(su["iter_lrs"]) != set(sr["iter_lrs"]):
                            bad.append(f"lr keys {sorted(su['iter_lrs'])} vs {sorted(sr['iter_lrs'])}")
                        else:
                            for key in su["iter_lrs"]:
                                e = _rel(sr["iter_lrs"][key], su["iter_lrs"][key])
                                if e > RTOL:
                                    soft["lr"] = max(soft.get("lr", 0.0), e)
                        for key in ("obj", "probe"):
                            e = _rel(sr[key], su[key])
                            if e > RTOL:
                                soft[key] = e
                        if soft and not bad:
                            # is this configuration simply sensitive to round-off?
                            noise = _noise_scale(plan, j)
                            real = {q: v for q, v in soft.items()
                                    if v > NOISE_FACTOR * noise[q] + RTOL}
                            if not real:
                                bump(res["obs"], "fp_sensitive_configuration")
                                diverged = True   # later comparisons of this run are meaningless
                                soft = {}
                            else:
                                soft = {q: (v, noise[q]) for q, v in real.items()}
                        for q, v in soft.items():
                            bad.append(f"{q} rel.dev {v[0]:.3g} (2-ulp perturbation twins drift "
                                       f"{v[1]:.2g})" if isinstance(v, tuple) else f"{q} rel.dev {v:.3g}")
                        if bad:
                            diverged = True
                            viol("resume_diverges",
                                 f"{tag}: after interruptions {[x for x in kinds if x != 'recon']} the "
                                 f"continued run differs from the uninterrupted twin: {bad}; "
                                 f"diagnostics: {_diagnostics(R)}; opt={cfg['opt']} sched="
                                 f"{ {a: b['type'] for a, b in cfg['sched'].items()} } keys={cfg['keys']}",
                                 "resume_diverges:" + "+".join(sorted({x for x in kinds if x != "recon"}))
                                 + ":" + bad[0].split(" ")[0].replace("history", ""))
                    continue
                if first:
                    continue  # nothing to interrupt before the first reconstruct call
                old = _state(R)
                if k == "to_cpu":
                    # a device move that moves nothing (cpu -> cpu): re-binds optimizers/schedulers
                    R.to("cpu")
                    d0 = _cmp_exact(old, _state(R))
                    if d0:
                        viol("interruption_not_lossless", f"{tag}: .to('cpu') changed {d0}",
                             "interruption_not_lossless:to_cpu:" + d0[0].split(" ")[0])
                    bump(probes, "device_move_cpu_to_cpu")
                    interrupted += 1
                    last_was_interrupt = True
                    continue
                if k == "save_keep":
                    # save, keep working with the SAME live object: saving must not disturb it
                    name = f"keep{j}.zip" if op["store"] == "zip" else f"keep{j}"
                    _, exc, _ = E.call(lambda: R.save(E.path(name), mode="w", store=op["store"],
                                                      compression_level=op["level"],
                                                      save_raw_data=True, verbose=0))
                    if exc is not None:
                        viol("op_raised", f"{tag}: save raised {exc!r}",
                             f"op_raised:save:{type(exc).__name__}")
                        break
                    d0 = _cmp_exact(old, _state(R))
                    if d0:
                        viol("save_changed_source", f"{tag}: saving changed the live object: {d0}",
                             "save_changed_source:" + d0[0].split(" ")[0])
                    bump(probes, "save_then_continue_same_object")
                    interrupted += 1
                    last_was_interrupt = True
                    continue
                if k == "save_fail_keep":
                    name = f"fail{j}.zip" if op["store"] == "zip" else f"fail{j}"
                    armed = {"kind": "store", "k": op["k"], "when": op["when"], "errno": op["errno"],
                             "sticky": op["sticky"]}
                    _, exc, _ = E.call(lambda: R.save(E.path(name), mode="w", store=op["store"],
                                                      compression_level=op["level"],
                                                      save_raw_data=True, verbose=0), armed=armed)
                    if exc is not None:
                        bump(probes, "checkpoint_failed_then_continued")
                        bump(res["faults"], "store_error_during_checkpoint")
                    d0 = _cmp_exact(old, _state(R))
                    if d0:
                        viol("save_changed_source", f"{tag}: a save that "
                             f"{'failed (' + type(exc).__name__ + ')' if exc is not None else 'succeeded'} "
                             f"changed the live object: {d0}",
                             "save_changed_source:failed:" + d0[0].split(" ")[0])
                    interrupted += 1
                    last_was_interrupt = True
                    continue
                if last_was_interrupt:
                    bump(probes, "double_interrupt")
                if k == "reload":
                    if after_clone:
                        bump(probes, "clone_then_save")
                    bump(probes, "reload_" + op["store"])
                    name = f"ck{j}.zip" if op["store"] == "zip" else f"ck{j}"
                    pth = E.path(name, op["path_kind"])
                    _, exc, _ = E.call(lambda: R.save(pth, mode="w", store=op["store"],
                                                      compression_level=op["level"],
                                                      save_raw_data=True, verbose=0))
                    if exc is not None:
                        viol("op_raised", f"{tag}: save raised {exc!r}",
                             f"op_raised:save:{type(exc).__name__}")
                        break
                    # the saving instance must be unharmed by saving
                    d0 = _cmp_exact(old, _state(R))
                    if d0:
                        viol("save_changed_source", f"{tag}: saving changed the live object: {d0}",
                             "save_changed_source:" + d0[0].split(" ")[0])
                    # restart: drop every reference to the saved instance
                    R = None
                    gc.collect()
                    new, exc, _ = E.call(lambda: P.from_file(pth))
                    if exc is not None:
                        viol("op_raised", f"{tag}: from_file raised {exc!r}",
                             f"op_raised:from_file:{type(exc).__name__}")
                        break
                    R = new
                    if plan.get("other_interpreter") and not did_other[0]:
                        did_other[0] = True
                        bump(probes, "reload_in_another_interpreter")
                        here, exc, _ = E.call(lambda: P.from_file(pth))
                        if exc is None:
                            s0 = _summary(here)
                            here.reconstruct(**_continue_kw(cfg))
                            s1 = _summary(here)
                            del here
                            o = _other_interpreter({"cfg": cfg, "env": plan["env"],
                                                    "path": os.path.join(E.work, name)},
                                                   plan["other_interpreter"])
                            if "error" in o:
                                viol("op_raised", f"{tag}: from_file in a fresh interpreter raised "
                                     f"{o['error']}", "op_raised:from_file:other_interpreter")
                            else:
                                dd = _summary_diff(s0, o["loaded"], rtol=0.0)
                                if not dd:
                                    dd = ["continued:" + x for x in _summary_diff(
                                        s1, o["continued"], rtol=1e-4)]
                                    if dd:
                                        # is this configuration simply sensitive to round-off?  Two
                                        # more loads in THIS process, perturbed by +-2 ulp, continued
                                        # the same way: the other session must not deviate by much more
                                        # than they do (AdamW on a TV-regularised uniform object turns
                                        # 1e-9 into 2e-3 within two iterations)
                                        worst = {}
                                        for e_ in (2.0 ** -22, -(2.0 ** -22)):
                                            tw, exc2, _ = E.call(lambda: P.from_file(pth))
                                            if exc2 is not None:
                                                continue
                                            _perturb(tw, e_)
                                            tw.reconstruct(**_continue_kw(cfg))
                                            st = _summary(tw)
                                            for k_ in ("iter_losses", "val_losses", "obj", "probe"):
                                                worst[k_] = max(worst.get(k_, 0.0), _rel(
                                                    np.asarray(st[k_], float), np.asarray(s1[k_], float)))
                                            del tw
                                        real = []
                                        for x in dd:
                                            k_ = x.split(":")[1].split(" ")[0]
                                            dev = float(x.split("rel.dev ")[1].rstrip(")")) if "rel.dev" in x \
                                                else float("inf")
                                            if dev > NOISE_FACTOR * worst.get(k_, 0.0) + 1e-4:
                                                real.append(f"{x} [perturbed twins drift {worst.get(k_, 0.0):.2g}]")
                                        if not real:
                                            bump(res["obs"], "fp_sensitive_configuration_other_interpreter")
                                        dd = real
                                if dd:
                                    viol("reload_depends_on_interpreter_session",
                                         f"{tag}: the same file loaded (and continued for 2 iterations) "
                                         f"in a fresh interpreter (PYTHONHASHSEED="
                                         f"{plan['other_interpreter']}) differs from this process in {dd}",
                                         "reload_depends_on_interpreter_session:" + dd[0].split(" ")[0])
                else:
                    if k == "clone_fallback":
                        _CopyProxy.armed = True
                    orig = R
                    rng_before = copy.deepcopy(orig.rng.bit_generator.state)
                    try:
                        new = orig.clone()
                    finally:
                        _CopyProxy.armed = False
                    E.sim.loop.drain()
                    if k == "clone_fallback":
                        if _ctx["fallback_taken"]:
                            bump(probes, "clone_fallback_path_taken")
                            bump(res["faults"], "deepcopy_error")
                        left = [x for x in os.listdir(E.io.tmp_root) if x.startswith("ptycho_clone")]
                        if left:
                            viol("clone_fallback_leaves_file", f"{tag}: temporary clone file left "
                                 f"behind: {left}", "clone_fallback_leaves_file")
                    elif orig.rng.bit_generator.state != rng_before:
                        # deepcopy failed by itself (non-leaf tensors cached on the object after a
                        # reconstruct call) and clone() took the save/reload fallback, which names
                        # its temporary file with a draw from the original's generator
                        bump(probes, "clone_fallback_natural")
                    # the original must be untouched by cloning
                    d0 = _cmp_exact(old, _state(orig))
                    if d0:
                        viol("clone_changed_source", f"{tag}: cloning changed the original: {d0}",
                             "clone_changed_source:" + d0[0].split(" ")[0])
                    # independence: step the clone, the original must not move (and vice versa)
                    if op.get("check_independence", True) and old["num_iters"] >= 0:
                        bump(probes, "clone_independence_checked")
                        # (a) iterate the ORIGINAL (it is dropped afterwards): the clone must not
                        #     move; (b) iterate a clone of the clone: the clone must not move either
                        before_new = _state(new)
                        orig.reconstruct(num_iters=1, loss_type=cfg["loss"], autograd=cfg.get("autograd", True))
                        d1 = _cmp_exact(before_new, _state(new))
                        if d1:
                            viol("clone_shares_state", f"{tag}: iterating the original changed its "
                                 f"clone: {d1}", "clone_shares_state:orig->clone:" + d1[0].split(" ")[0])
                        probe_clone = new.clone()
                        try:   # constraint dictionaries must not be shared either
                            probe_clone.constraints = {"object": {"tv_weight_xy": 0.123},
                                                       "probe": {"tv_weight": 0.456}}
                        except Exception:
                            pass
                        probe_clone.reconstruct(num_iters=1, loss_type=cfg["loss"], autograd=cfg.get("autograd", True))
                        d2 = _cmp_exact(before_new, _state(new))
                        if d2 and not d1:
                            viol("clone_shares_state", f"{tag}: iterating a clone changed the object "
                                 f"it was cloned from: {d2}",
                                 "clone_shares_state:clone->source:" + d2[0].split(" ")[0])
                        del probe_clone
                    R = new
                    after_clone = True
                interrupted += 1
                last_was_interrupt = True
                # ---- oracle 1: what the statement lists, exactly
                d = _cmp_exact(old, _state(R))
                if d:
                    viol("interruption_not_lossless",
                         f"{tag}: {k} changed {d} (num_iters {old['num_iters']}); diagnostics: "
                         f"{_diagnostics(R)}", f"interruption_not_lossless:{k}:" + d[0].split(" ")[0])
            except Exception as e:
                viol("op_raised", f"{tag} raised {e!r}", f"op_raised:{k}:{type(e).__name__}")
                break
        res["sched"].append(":".join([cfg["opt"], "+".join(sorted({s["type"] for s in cfg[
            "sched"].values()}))] + [x[:3] for x in kinds if x != "recon"]))
        E.finish(res)
        res["digest"] = E.log.digest()
    if interrupted and iters_after_interrupt:
        res["nontrivial"] = plan_digest({k: plan[k] for k in ("cfg", "ops")})
    seen, uniq = set(), []
    for v_ in res["violations"]:
        if (v_["oracle"], v_["sig"]) not in seen:
            seen.add((v_["oracle"], v_["sig"]))
            uniq.append(v_)
    res["violations"] = uniq
    res["digest"] += ":" + hashlib.blake2b(repr([sorted((x["oracle"], x["sig"]) for x in uniq),
                                                 res["steps"]]).encode(), digest_size=4).hexdigest()
    return res


def plan_size(plan):
    return len(plan["ops"])


def shrink(plan):
    from .. import simhist

    head, tail = plan["ops"][:1], plan["ops"][1:]
    for p in simhist.shrink_history({"ops": tail}, "ops"):
        yield {**plan, "ops": copy.deepcopy(head) + p["ops"]}
    if plan["env"] != serio.DEFAULT_ENV:
        yield {**plan, "env": copy.deepcopy(serio.DEFAULT_ENV)}
    c = plan["cfg"]
    simple = {"obj_type": "complex", "slices": 1, "modes": 1, "constraints": {}, "snapshots": None,
              "loss": "l2_amplitude", "scan": [4, 6]}
    for k, v in simple.items():
        if c[k] != v:
            p = copy.deepcopy(plan)
            p["cfg"][k] = v
            yield p
    if any(s["type"] != "none" for s in c["sched"].values()):
        p = copy.deepcopy(plan)
        p["cfg"]["sched"] = {k: {"type": "none"} for k in c["sched"]}
        yield p
    if c["opt"] != "sgd":
        p = copy.deepcopy(plan)
        p["cfg"]["opt"] = "sgd"
        yield p
    if len(c["keys"]) > 1:
        for k in c["keys"]:
            p = copy.deepcopy(plan)
            p["cfg"]["keys"] = [k]
            p["cfg"]["sched"] = {k: c["sched"][k]}
            yield p
    for i, op in enumerate(plan["ops"]):
        if op["op"] == "recon" and op["n"] > 1:
            p = copy.deepcopy(plan)
            p["ops"][i]["n"] = 1
            yield p
        if op["op"] == "clone_fallback":
            p = copy.deepcopy(plan)
            p["ops"][i]["op"] = "clone"
            yield p
