"""C11 — ragged Vector keeps its structural invariants under any operation history.
Engine: E-simhist (operation histories against a reference model)."""
from __future__ import annotations

import copy
import itertools

import numpy as np

from .. import simhist
from ..core import Rng, Violation, bump, new_result, plan_digest

ID = "C11"
LEVEL = "exploration"
ENGINE = "simhist"
TIERS = {
    "quick": {"runs": 80000, "budget_s": 60, "chunk": 400},
    "thorough": {"runs": 5000000, "budget_s": 1500, "chunk": 2000},
}
RULE = ("one evaluation = one seeded history (3-30 operations, swarm-selected sub-alphabet) over "
        "Vector.from_shape/from_data (1-3 fixed dims of 1-3, occasionally 8-100; 1-3 fields, "
        "occasionally 5-17; float64 and int64 cells of 0-3 rows, occasionally 50-1000), cell "
        "get/set, slice and fancy get/set (lists, steps, partial index tuples, negative and "
        "NumPy-integer positions, values from lists or another Vector), field arithmetic, "
        "flatten/set_flattened and field assignment from arrays, lists and field views (of another "
        "field, of a copy), add/remove fields, copy, metadata writes, a second "
        "independently created vector, and rejected operations; a reference model (dict of cells) "
        "is stepped in lock-step and EVERY public read (all cells, flatten, per-field flatten, "
        "fields, units, shape, num_fields) is compared after every operation. "
        "distinct_nontrivial = distinct history digests with >= 3 state-changing operations.")
SCHED_MEASURE = "distinct (ndim, operation-kind 3-gram) pairs visited"
SIM_TIME_NOTE = "no clock in this engine (sequential history simulation); sim_time_s is 0"
ASSUMPTIONS = [
    "cell arrays are float64 or int64 and passed as fresh objects (the class stores references; "
    "caller-side aliasing is not part of the property); values taken from another Vector come from a "
    "copy; the model applies numpy's own in-place assignment casting, values are compared "
    "numerically (add_fields pads with float zeros)",
    "slices returned by __getitem__ are compared and dropped (they share cell arrays with their "
    "source by design: 'view'); only copy() and independently created vectors must be independent",
    "when an index expression of slices/lists addresses exactly one cell the bare array or a "
    "one-element list is accepted; the result's shape convention (ints do not drop axes) is not "
    "compared, only the addressed cells in row-major order",
    "empty selections and removing every field are not generated",
]
COMPONENTS_REAL = ["quantem.core.datastructures.vector (Vector, _FieldView, nested_list)",
                   "quantem.core.utils.validators (vector validators)"]
COMPONENTS_STUB = ["none"]
EXPECTED_PROBES = ["ndim1", "ndim2", "ndim3", "unset_cell_read", "zero_row_cell", "slice_get_partial",
                   "slice_set_from_vector", "rejected_wrong_columns", "rejected_duplicate_field",
                   "rejected_out_of_range", "copy_independence_checked", "metadata_independence_checked",
                   "set_flattened_identity", "fancy_list_index", "negative_step_slice",
                   "single_cell_via_slice", "integer_cell_field_op", "negative_int_index",
                   "numpy_int_index", "cell_with_many_rows", "dim_ge_8", "fields_ge_5",
                   "field_assigned_from_field_view_other_field", "flat_restore",
                   "flat_restore_single_populated_cell", "setter_fields", "setter_units",
                   "rejected_fields_setter_count", "rejected_fields_setter_dup", "rejected_units_setter_count",
                   "bigint_cells", "cells_float32", "cells_special", "cells_complex", "tricky_field_names",
                   "field_removed_and_re_added", "copy_via_deepcopy", "copy_via_pickle"]

OPS = ["set_cell", "get_cell", "slice_get", "slice_set", "field_op", "flatten", "set_flat", "flat_restore",
       "rename", "remove_readd",
       "add_fields", "remove_fields", "copy_check", "metadata", "second_vector", "rejected",
       "recreate", "continue_on_copy"]
_V = None


_SETUP_DONE = []


RULE = RULE + ' Round 15: remove_fields with duplicate names, reversed order and tuples.'


def setup():
    if _SETUP_DONE:
        return
    _SETUP_DONE.append(1)
    global _V
    from .. import core

    core.use_repo()
    import warnings

    warnings.filterwarnings("ignore")
    import quantem.core.datastructures.vector as vm

    vm.print = lambda *a, **k: None
    _V = vm.Vector


# ------------------------------------------------------------------------------------------
def _gen_create(r):
    ndim = r.weighted([(1, 3), (2, 4), (3, 3)])
    shape = [r.pick([1, 2, 3]) for _ in range(ndim)]
    nf = r.pick([1, 2, 3])
    big = r.fork("big")
    if big.chance(0.05):       # sizes beyond the usual small ones
        shape[big.randrange(ndim)] = big.pick([8, 16, 33] if ndim > 1 else [8, 16, 33, 100])
    if big.chance(0.05):
        nf = big.pick([5, 8, 9, 17])
    return {"op": "create", "how": "from_data" if (ndim == 1 and r.chance(0.4)) else "from_shape",
            "cells": r.fork("regime").weighted([("mixed", 80), ("bigint", 6), ("float32", 5), ("special", 5), ("complex", 4)]),
            "shape": shape, "nf": nf, "named": r.chance(0.6), "units": r.chance(0.5),
            "fill": r.randrange(10 ** 6), "prefill": r.random()}


def _gen_index(r):
    """Raw index expression per dim; interpreted modulo the current shape at run time."""
    out = []
    for _ in range(3):
        k = r.weighted([("int", 3), ("slice", 4), ("list", 2), ("all", 1)])
        if k == "int":
            out.append({"t": "int", "i": r.randrange(100)})
        elif k == "slice":
            out.append({"t": "slice", "a": r.randrange(100), "b": r.randrange(100),
                        "step": r.pick([1, 1, 2, -1, -2, 3]), "open": r.pick([0, 1, 2, 3])})
        elif k == "list":
            out.append({"t": "list", "ii": [r.randrange(100) for _ in range(r.pick([1, 2, 3]))],
                        "as_array": r.chance(0.3)})
        else:
            out.append({"t": "all"})
    return out


def _gen_op(r, kinds):
    k = r.pick(kinds)
    if k in ("set_cell", "get_cell"):
        return {"op": k, "idx": [r.randrange(100) for _ in range(3)],
                "rows": r.pick([0, 1, 2, 3]) if r.chance(0.96) else r.pick([50, 257, 1000]),
                "fill": r.randrange(10 ** 6), "via": r.pick(["item", "method"])}
    if k == "slice_get":
        return {"op": k, "index": _gen_index(r), "partial": r.pick([0, 0, 0, 1, 2]),
                "via": r.pick(["item", "item", "method"])}
    if k == "slice_set":
        return {"op": k, "index": _gen_index(r), "partial": r.pick([0, 0, 0, 0, 1]),
                "via": r.pick(["item", "item", "method"]), "src": r.pick(["list", "list", "vector"]),
                "fill": r.randrange(10 ** 6), "rows": [r.pick([0, 1, 2, 3]) for _ in range(27)]}
    if k == "field_op":
        return {"op": k, "f": r.randrange(100), "sym": r.pick(["+", "-", "*", "/", "//", "%", "**"]),
                "x": r.pick([2, 3, 0.5, -1.5, 7, 1])}
    if k == "flatten":
        return {"op": k, "f": r.randrange(100)}
    if k == "set_flat":
        return {"op": k, "f": r.randrange(100), "identity": r.chance(0.4), "fill": r.randrange(10 ** 6),
                "via": r.pick(["method", "item"]),
                # what stands on the right-hand side: a fresh array, a list, the view of ANOTHER field
                # of the same vector, or a field view of an independent copy
                "src": r.fork("src").pick(["array", "array", "list", "view_same", "view_other"])}
    if k == "remove_readd":
        return {"op": k, "f": r.randrange(100)}
    if k == "rename":
        # the fields / units property setters: same count, unique names
        return {"op": k, "which": r.pick(["fields", "fields", "units"]), "tag": r.randrange(1000),
                "form": r.pick(["list", "tuple"])}
    if k == "flat_restore":
        # snapshot = flatten(); mutate the field; write the snapshot back: the data must be restored
        return {"op": k, "f": r.randrange(100), "sym": r.pick(["+", "*", "-"]), "x": r.pick([2, 3, 7, -1.5]),
                "whole": r.chance(0.3)}
    if k == "add_fields":
        return {"op": k, "n": r.pick([1, 1, 2, 3]), "as_str": r.chance(0.3), "tag": r.randrange(1000)}
    if k == "remove_fields":
        return {"op": k, "ff": [r.randrange(100) for _ in range(r.pick([1, 1, 2]))],
                "missing": r.chance(0.15), "as_str": r.chance(0.3),
                # the FORM of the argument: a name listed more than once (in any position), reversed
                # order, tuple instead of list (round 15, S-C11o: duplicates were never generated)
                "dup": r.fork("dup").pick([0, 0, 0, 1, 1, 2]), "dup_at": r.fork("dup").randrange(100),
                "rev": r.fork("rev").chance(0.3), "form": r.fork("form").pick(["list", "list", "tuple"])}
    if k == "copy_check":
        return {"op": k, "fill": r.randrange(10 ** 6), "idx": [r.randrange(100) for _ in range(3)],
                # how the copy is made: the class's own copy(), copy.deepcopy, or a pickle round trip
                "how": r.fork("how").pick(["copy", "copy", "copy", "deepcopy", "pickle"])}
    if k == "metadata":
        return {"op": k, "key": r.pick(["a", "b"]), "val": r.randrange(1000), "on": r.pick(["v", "w"])}
    if k == "second_vector":
        return dict(_gen_create(r), op="second_vector")
    if k == "rejected":
        return {"op": k, "what": r.pick(["wrong_columns", "duplicate_field", "out_of_range",
                                         "wrong_type", "wrong_count", "wrong_columns_slice",
                                         "wrong_nindex", "fields_setter_count", "fields_setter_dup",
                                         "units_setter_count"]),
                "idx": [r.randrange(100) for _ in range(3)], "index": _gen_index(r)}
    if k == "recreate":
        return _gen_create(r)
    if k == "continue_on_copy":
        return {"op": k}
    raise ValueError(k)


def gen(rng: Rng, tier, i):
    kinds = rng.subset(OPS, 0.6, 3)
    w = []
    for k in kinds:
        w += [k] * {"set_cell": 4, "slice_set": 3, "slice_get": 3, "get_cell": 1, "recreate": 1,
                    "second_vector": 1}.get(k, 2)
    n = rng.pick([3, 6, 10, 16, 30])
    ops = [_gen_create(rng.fork("create"))] + [_gen_op(rng.fork(("op", j)), w) for j in range(n)]
    return {"ops": ops}


# ------------------------------------------------------------------------------------------
class MVec:
    """Reference model: plain data, no sharing."""

    def __init__(self, shape, fields, units):
        self.shape = tuple(shape)
        self.fields = list(fields)
        self.units = list(units)
        self.cells = {idx: None for idx in np.ndindex(*self.shape)}
        self.meta = {}

    def copy(self):
        m = MVec(self.shape, self.fields, self.units)
        m.cells = {k: (None if v is None else v.copy()) for k, v in self.cells.items()}
        return m

    @property
    def nf(self):
        return len(self.fields)

    def order(self):
        return list(np.ndindex(*self.shape))

    def flatten(self):
        arrs = [self.cells[i] for i in self.order() if self.cells[i] is not None]
        return np.vstack(arrs) if arrs else np.empty((0, self.nf))


_REGIME = ["mixed"]
_BIG = [2 ** 53 + 1, 2 ** 53 + 3, 1_700_000_000_123_456_789, -(2 ** 60) + 7, 2 ** 62 + 1, 5, -3,
        -(2 ** 53) - 1]


def _cell(fill, rows, nf):
    """A fresh cell array; about a third are integer-typed (numpy's casting on in-place field
    arithmetic then matters; the model applies the very same numpy assignment).  In the 'bigint'
    regime EVERY cell is int64 with values beyond 2**53 (time stamps, ids): nothing may detour
    through float64."""
    g = np.random.Generator(np.random.PCG64(fill))
    if _REGIME[0] == "bigint":
        return np.asarray(_BIG, dtype=np.int64)[g.integers(0, len(_BIG), (rows, nf))] + g.integers(
            0, 4, (rows, nf))
    a = np.round(g.uniform(-9, 9, (rows, nf)), 3)
    if _REGIME[0] == "float32":
        return a.astype(np.float32)            # every cell single precision
    if _REGIME[0] == "complex":
        return a + 1j * np.round(g.uniform(-9, 9, (rows, nf)), 3)     # every cell complex128
    if _REGIME[0] == "special" and a.size:
        a = a.copy()                           # NaN / +-inf / -0.0 among the values
        a.flat[int(fill) % a.size] = [np.nan, np.inf, -np.inf, -0.0][int(fill) % 4]
        return a
    if fill % 3 == 0:
        return np.round(a).astype(np.int64)
    return a


def _resolve_index(index, shape, partial, neg=False):
    """Raw index spec -> (python index objects, per-dim index lists), never empty.
    neg: the item path (v[...]) accepts negative positions (get_data/set_data reject them by design);
    both paths accept NumPy integers."""
    nd = len(shape) - min(partial, len(shape) - 1)
    objs, lists = [], []
    for d in range(nd):
        s, n = index[d], shape[d]
        if s["t"] == "int":
            i = s["i"] % n
            o = i - n if (neg and s["i"] % 5 == 0) else i
            objs.append(np.int64(o) if s["i"] % 7 == 0 else o)
            lists.append([i])
        elif s["t"] == "list":
            ii = [x % n for x in s["ii"]]
            oo = [x - n if (neg and q_ % 2 == 0 and s["ii"][0] % 3 == 0) else x for q_, x in enumerate(ii)]
            objs.append(np.asarray(oo) if s.get("as_array") else oo)
            lists.append(ii)
        elif s["t"] == "slice":
            step = s["step"]
            a, b = s["a"] % n, s["b"] % n
            lo, hi = min(a, b), max(a, b) + 1
            if step > 0:
                start, stop = (lo, hi)
            else:
                start, stop = (hi - 1, lo - 1 if lo > 0 else None)
            if s["open"] == 1:
                start = None
            elif s["open"] == 2:
                stop = None
            elif s["open"] == 3:
                start = stop = None
            sl = slice(start, stop, step)
            ii = list(range(n))[sl]
            if not ii:
                sl = slice(None)
                ii = list(range(n))
            objs.append(sl)
            lists.append(ii)
        else:
            objs.append(slice(None))
            lists.append(list(range(n)))
    for d in range(nd, len(shape)):
        lists.append(list(range(shape[d])))
    return objs, lists


def _arr_eq(a, b):
    if a is None or b is None:
        return a is None and b is None
    if not isinstance(a, np.ndarray) or not isinstance(b, np.ndarray):
        return False
    if a.shape != b.shape:
        return False
    with np.errstate(all="ignore"):
        if a.dtype.kind == "c" or b.dtype.kind == "c":
            return a.dtype.kind == b.dtype.kind and bool(np.array_equal(a, b, equal_nan=True))
        if _REGIME[0] == "float32":
            # the class may compute in double precision and keep or narrow the result: values are
            # compared to single-precision accuracy (dtype width is not part of the property)
            # ... and a result beyond the single-precision range is +-inf on one side and a finite
            # double on the other (x ** 7 ** 7): both are clipped to the float32 range first
            F = float(np.finfo(np.float32).max)
            return bool(np.allclose(np.clip(a.astype(float), -F, F), np.clip(b.astype(float), -F, F),
                                    rtol=4e-6, atol=1e-6, equal_nan=True))
        return bool(np.all((a == b) | (np.isnan(a.astype(float)) & np.isnan(b.astype(float)))))


def _cells_of_result(res):
    """Flatten whatever a slice read returned into a list of cells in row-major order."""
    if isinstance(res, _V):
        out = []

        def rec(d):
            if isinstance(d, list):
                for s in d:
                    rec(s)
            else:
                out.append(d)

        rec(res.data)
        return out, tuple(res.shape)
    if isinstance(res, list):
        return list(res), None
    return [res], None


class _Stop(Exception):
    pass


def run(plan):
    res = new_result()
    probes = res["probes"]
    V = _V
    vecs = {}     # slot -> (impl, model)
    kinds = []
    n_mut = [0]
    tagbox = [""]

    def viol(oracle, detail, sig):
        res["violations"].append(Violation(oracle, f"{tagbox[0]}: {detail}", sig))

    _REGIME[0] = plan["ops"][0].get("cells", "mixed")
    big = _REGIME[0] == "bigint"
    if big:
        bump(probes, "bigint_cells")
    elif _REGIME[0] != "mixed":
        bump(probes, "cells_" + _REGIME[0])

    def create(op):
        shape, nf = tuple(op["shape"]), op["nf"]
        fields = [f"f{j}" for j in range(nf)] if op["named"] else None
        if fields and op["fill"] % 5 == 0:
            # names that are prefixes of each other, contain spaces / unicode, or look like numbers
            pool = ["a", "ab", "a b", "\u00e9", "0", "abc", "A", "_a", "a.b", "f", "field", "field_0", "x" * 40,
                    "1", "-", " ", "ba", "aa", "b", "c", "d", "e", "g"]
            fields = pool[:nf]
            bump(probes, "tricky_field_names")
        units = [f"u{j}" for j in range(nf)] if op["units"] else None
        bump(probes, f"ndim{len(shape)}")
        if max(shape) >= 8:
            bump(probes, "dim_ge_8")
        if nf >= 5:
            bump(probes, "fields_ge_5")
        g = Rng(op["fill"])
        if op["how"] == "from_data":
            data = []
            for j in range(shape[0]):
                rows = g.pick([0, 1, 2, 3])
                if rows == 0:
                    bump(probes, "zero_row_cell")
                data.append(_cell(op["fill"] + j, rows, nf))
            arg = [d.copy() for d in data] if g.chance(0.6) else [d.tolist() if len(d) else d.copy()
                                                                  for d in data]
            v = V.from_data(arg, fields=fields, units=units) if fields else V.from_data(
                arg, num_fields=nf if g.chance(0.5) else None, units=units)
            m = MVec(shape, fields or [f"field_{j}" for j in range(nf)], units or ["none"] * nf)
            for j in range(shape[0]):
                m.cells[(j,)] = data[j].copy()
        else:
            v = V.from_shape(shape, fields=fields, units=units) if fields else V.from_shape(
                shape, num_fields=nf, units=units)
            m = MVec(shape, fields or [f"field_{j}" for j in range(nf)], units or ["none"] * nf)
            for q, idx in enumerate(m.order()):
                if g.random() < op["prefill"]:
                    a = _cell(op["fill"] + 31 * q, g.pick([0, 1, 2, 3]), nf)
                    if a.shape[0] == 0:
                        bump(probes, "zero_row_cell")
                    v[idx if len(idx) > 1 else idx[0]] = a.copy()
                    m.cells[idx] = a
        return v, m

    def read_cell(v, idx):
        return v[idx] if len(idx) > 1 else v[idx[0]]

    def check_all(opkind):
        """Compare every public read of every live vector with the model."""
        for slot, (v, m) in list(vecs.items()):
            nd = len(m.shape)
            sig = f"{opkind}:ndim={nd}"
            if tuple(v.shape) != m.shape:
                viol("shape_mismatch", f"{slot}.shape={v.shape} model={m.shape}", "shape:" + sig)
                raise _Stop()
            if list(v.fields) != m.fields or list(v.units) != m.units or v.num_fields != m.nf:
                viol("fields_units_mismatch",
                     f"{slot}: fields={v.fields} units={v.units} model={m.fields}/{m.units}",
                     "fields:" + sig)
                raise _Stop()
            if len(set(v.fields)) != len(v.fields) or len(v.units) != len(v.fields):
                viol("fields_invariant", f"{slot}: fields={v.fields} units={v.units}",
                     "fields_invariant:" + sig)
            bad = False
            for idx in m.order():
                try:
                    c = read_cell(v, idx)
                except Exception as e:
                    viol("cell_read_raised", f"{slot}[{idx}] raised {e!r}", "cell_read:" + sig)
                    raise _Stop()
                if c is None:
                    bump(probes, "unset_cell_read")
                if c is not None and (not isinstance(c, np.ndarray) or c.ndim != 2
                                      or c.shape[1] != v.num_fields):
                    viol("cell_invariant", f"{slot}[{idx}] is {type(c).__name__} "
                         f"{getattr(c, 'shape', None)} with num_fields={v.num_fields}",
                         "cell_invariant:" + sig)
                    raise _Stop()
                if not _arr_eq(c, m.cells[idx]):
                    viol("cell_mismatch", f"{slot}[{idx}]={None if c is None else c.tolist()} "
                         f"model={None if m.cells[idx] is None else m.cells[idx].tolist()}",
                         "cell_mismatch:" + sig)
                    bad = True
                    break
            if bad:
                resync(slot)
                continue
            try:
                fl = v.flatten()
            except Exception as e:
                viol("flatten_raised", f"{slot}.flatten() raised {e!r}", "flatten_raised:" + sig)
                raise _Stop()
            mf = m.flatten()
            if (np.asarray(fl).dtype.kind in "iu" and mf.dtype.kind in "iu") or "c" in (
                    np.asarray(fl).dtype.kind, mf.dtype.kind):
                flat_ok = np.asarray(fl).shape == mf.shape and bool(
                    np.array_equal(np.asarray(fl), mf, equal_nan=True))
            else:
                flat_ok = _arr_eq(np.asarray(fl, dtype=float), mf)
            if not flat_ok:
                viol("flatten_mismatch", f"{slot}.flatten() shape {fl.shape} vs model {mf.shape}",
                     "flatten:" + sig)
            for j, f in enumerate(m.fields):
                ff = v[f].flatten()
                col = mf[:, j] if mf.size else np.empty((0,))
                if (np.asarray(ff).dtype.kind in "iu" and col.dtype.kind in "iu") or "c" in (
                        np.asarray(ff).dtype.kind, col.dtype.kind):
                    col_ok = np.asarray(ff).shape == col.shape and bool(
                        np.array_equal(np.asarray(ff), col, equal_nan=True))
                else:
                    col_ok = _arr_eq(np.asarray(ff, dtype=float), col)
                if not col_ok:
                    viol("field_flatten_mismatch", f"{slot}[{f!r}].flatten()={ff.tolist()} model="
                         f"{(mf[:, j] if mf.size else np.empty((0,))).tolist()}",
                         "field_flatten:" + sig)
                    break
            if dict(v.metadata) != m.meta:
                viol("metadata_shared", f"{slot}.metadata={dict(v.metadata)} but only {m.meta} was "
                     "written to this vector", "metadata_shared:" + opkind)
                m.meta = dict(v.metadata)

    def resync(slot):
        v, m = vecs[slot]
        for idx in m.order():
            c = read_cell(v, idx)
            m.cells[idx] = None if c is None else np.array(c, copy=True)
        m.fields = list(v.fields)
        m.units = list(v.units)

    def fresh_values(op, count, nf):
        return [_cell(op["fill"] + 17 * q, op["rows"][q % len(op["rows"])], nf) for q in range(count)]

    try:
        for n_op, op in enumerate(plan["ops"]):
            k = op["op"]
            kinds.append(k)
            tagbox[0] = f"op#{n_op}:{k}"
            if k in ("create", "recreate") or "v" not in vecs:
                if k not in ("create", "recreate"):
                    continue
                try:
                    vecs["v"] = create(op)
                except Exception as e:
                    viol("op_raised", f"creation {op['how']} shape={op['shape']} raised {e!r}",
                         f"op_raised:create:{op['how']}:ndim={len(op['shape'])}")
                    raise _Stop()
                n_mut[0] += 1
                check_all("create")
                continue
            v, m = vecs["v"]
            nd = len(m.shape)
            sigs = f"ndim={nd}"
            if k == "second_vector":
                try:
                    vecs["w"] = create(op)
                except Exception as e:
                    viol("op_raised", f"creation raised {e!r}", f"op_raised:create:{sigs}")
                    raise _Stop()
                check_all("second_vector")
            elif k == "set_cell":
                idx = tuple(i % s for i, s in zip(op["idx"], m.shape))
                a = _cell(op["fill"], op["rows"], m.nf)
                if op["rows"] == 0:
                    bump(probes, "zero_row_cell")
                if op["rows"] >= 50:
                    bump(probes, "cell_with_many_rows")
                try:
                    if op["via"] == "item":
                        oi = tuple((i - s_ if r_ % 5 == 0 else i) if r_ % 3 else np.int64(i)
                                   for i, s_, r_ in zip(idx, m.shape, op["idx"]))
                        if any(x < 0 for x in oi):
                            bump(probes, "negative_int_index")
                        v[oi if nd > 1 else oi[0]] = a.copy()
                    else:
                        v.set_data(a.copy(), *idx)
                except Exception as e:
                    viol("op_raised", f"set cell {idx} via {op['via']} raised {e!r}",
                         f"op_raised:set_cell:{op['via']}:{sigs}")
                    raise _Stop()
                m.cells[idx] = a
                n_mut[0] += 1
                check_all("set_cell")
            elif k == "get_cell":
                idx = tuple(i % s for i, s in zip(op["idx"], m.shape))
                try:
                    c = v.get_data(*idx) if op["via"] == "method" else read_cell(v, idx)
                except Exception as e:
                    viol("op_raised", f"get cell {idx} via {op['via']} raised {e!r}",
                         f"op_raised:get_cell:{op['via']}:{sigs}")
                    continue
                if not _arr_eq(c, m.cells[idx]):
                    viol("cell_mismatch", f"get {idx} via {op['via']}", f"cell_mismatch:get_cell:{sigs}")
            elif k == "slice_get":
                partial = op["partial"] if op["via"] == "item" else 0
                objs, lists = _resolve_index(op["index"], m.shape, partial, neg=op["via"] == "item")
                want_idx = list(itertools.product(*lists))
                if any(isinstance(o, (int, np.integer)) and o < 0 for o in objs):
                    bump(probes, "negative_int_index")
                if any(isinstance(o, np.integer) for o in objs):
                    bump(probes, "numpy_int_index")
                want = [m.cells[i] for i in want_idx]
                if partial and len(objs) < nd:
                    bump(probes, "slice_get_partial")
                if any(isinstance(o, (list, np.ndarray)) for o in objs):
                    bump(probes, "fancy_list_index")
                if any(isinstance(o, slice) and (o.step or 1) < 0 for o in objs):
                    bump(probes, "negative_step_slice")
                all_int = all(isinstance(o, (int, np.integer)) for o in objs) and len(objs) == nd
                if len(want) == 1 and not all_int:
                    bump(probes, "single_cell_via_slice")
                try:
                    if op["via"] == "method":
                        r_ = v.get_data(*objs)
                    else:
                        r_ = v[tuple(objs) if len(objs) > 1 else objs[0]]
                except Exception as e:
                    viol("slice_get_raised", f"index {objs} via {op['via']} on shape {m.shape} "
                         f"raised {e!r}", f"slice_get_raised:{op['via']}:{sigs}")
                    continue
                got, gshape = _cells_of_result(r_)
                ok = len(got) == len(want) and all(_arr_eq(a, b) for a, b in zip(got, want))
                if not ok:
                    viol("slice_get_mismatch", f"index {objs} via {op['via']} on shape {m.shape}: got "
                         f"{len(got)} cells, want {len(want)} (addressed {want_idx[:6]})",
                         f"slice_get_mismatch:{op['via']}:{sigs}")
                elif isinstance(r_, V):
                    if list(r_.fields) != m.fields or list(r_.units) != m.units:
                        viol("slice_get_mismatch", "fields/units of the slice differ",
                             f"slice_get_fields:{sigs}")
            elif k == "slice_set":
                partial = op["partial"] if op["via"] == "item" else 0
                objs, lists = _resolve_index(op["index"], m.shape, partial, neg=op["via"] == "item")
                tgt_idx = list(itertools.product(*lists))
                # repeated targets (list index with duplicates): last writer wins in both
                vals = fresh_values(op, len(tgt_idx), m.nf)
                src = op["src"]
                if src == "vector" and op["via"] == "item":
                    # a Vector holding exactly these cells, built independently
                    bump(probes, "slice_set_from_vector")
                    sv = V.from_shape((len(vals),), num_fields=m.nf)
                    for q, a in enumerate(vals):
                        sv[q] = a.copy()
                    value = sv
                else:
                    value = [a.copy() for a in vals]
                single = len(tgt_idx) == 1
                all_int = all(isinstance(o, (int, np.integer)) for o in objs) and len(objs) == nd
                if all_int or (single and not isinstance(value, V) and not any(
                        isinstance(o, slice) for o in objs)):
                    value = vals[0].copy()
                try:
                    def _do(val):
                        if op["via"] == "method":
                            v.set_data(val, *objs)
                        else:
                            v[tuple(objs) if len(objs) > 1 else objs[0]] = val

                    if single and not all_int and not isinstance(value, V):
                        # one cell addressed through slices/lists: the API takes either the bare
                        # array or a one-element list depending on the path; accept either
                        try:
                            _do(value)
                        except TypeError:
                            _do([vals[0].copy()] if isinstance(value, np.ndarray) else vals[0].copy())
                    else:
                        _do(value)
                except Exception as e:
                    has_neg = any((isinstance(o, (int, np.integer)) and o < 0) or (
                        isinstance(o, (list, np.ndarray)) and np.any(np.asarray(o) < 0)) for o in objs)
                    if has_neg and isinstance(e, IndexError):
                        # the assignment paths reject negative positions explicitly ("out of
                        # bounds", documented): a legitimate refusal - the state must not have moved
                        bump(probes, "negative_index_rejected_by_setter")
                        check_all("slice_set_rejected_negative")
                        continue
                    viol("slice_set_raised", f"index {objs} via {op['via']} src={src} on shape "
                         f"{m.shape} raised {e!r}", f"slice_set_raised:{op['via']}:{sigs}")
                    check_all("slice_set_raised")
                    continue
                for i, a in zip(tgt_idx, vals):
                    m.cells[i] = a
                n_mut[0] += 1
                before = len(res["violations"])
                check_all(f"slice_set:{op['via']}")
            elif k == "field_op":
                j = op["f"] % m.nf
                f = m.fields[j]
                x = op["x"]
                sym = op["sym"]
                ints = [c for c in m.cells.values() if c is not None and c.dtype.kind in "iu"
                        and c.size]
                if _REGIME[0] == "complex" and sym in ("//", "%", "**"):
                    continue       # not defined (or branch-cut sensitive) for complex values
                if _REGIME[0] == "float32" and sym in ("//", "%"):
                    continue       # discontinuous: a single-precision rounding difference of the
                    #                operand (the class computes in double) moves the result by O(1e-5)
                if big:
                    # exact integer arithmetic only (no float operand, no overflow)
                    if sym not in ("+", "-") or x != int(x):
                        continue
                    x = int(x)
                elif ints and (sym == "**" or max(float(np.abs(c).max()) for c in ints) > 1e12):
                    # float -> int64 casts of out-of-range / NaN values are undefined behaviour in
                    # numpy (SIMD vs scalar paths differ): keep integer cells in a safe range
                    continue
                fn = {"+": lambda a: a + x, "-": lambda a: a - x, "*": lambda a: a * x,
                      "/": lambda a: a / x, "//": lambda a: a // x, "%": lambda a: a % x,
                      "**": lambda a: a ** x}[sym]
                try:
                    with np.errstate(all="ignore"):
                        fv = v[f]
                        if sym == "+":
                            fv += x
                        elif sym == "-":
                            fv -= x
                        elif sym == "*":
                            fv *= x
                        elif sym == "/":
                            fv /= x
                        elif sym == "//":
                            fv //= x
                        elif sym == "%":
                            fv %= x
                        else:
                            fv **= x
                except Exception as e:
                    viol("op_raised", f"field {f} {sym}= {x} raised {e!r}",
                         f"op_raised:field_op:{sigs}")
                    continue
                with np.errstate(all="ignore"):
                    for idx, c in m.cells.items():
                        if c is not None:
                            if c.dtype.kind in "iu" and c.shape[0]:
                                bump(probes, "integer_cell_field_op")
                            c[:, j] = fn(c[:, j])
                n_mut[0] += 1
                check_all("field_op")
            elif k == "flatten":
                check_all("flatten")
            elif k == "set_flat":
                j = op["f"] % m.nf
                f = m.fields[j]
                tot = m.flatten().shape[0]
                if op["identity"]:
                    bump(probes, "set_flattened_identity")
                    try:
                        v[f].set_flattened(v[f].flatten())
                    except Exception as e:
                        viol("op_raised", f"set_flattened(flatten()) raised {e!r}",
                             f"op_raised:set_flat:{sigs}")
                        continue
                else:
                    vals = np.round(np.random.Generator(np.random.PCG64(op["fill"])).uniform(
                        -5, 5, tot), 3)
                    if big:
                        vals = _cell(op["fill"] + 5, max(tot, 1), 1)[:tot, 0].copy()
                    src = op.get("src", "array")
                    rhs = vals.copy()
                    if src == "list":
                        rhs = vals.tolist()
                    elif src in ("view_same", "view_other") and tot:
                        gj = op["fill"] % m.nf
                        vals = np.asarray(m.flatten()[:, gj]).copy() if (
                            big or _REGIME[0] == "complex") else np.asarray(
                            m.flatten()[:, gj], dtype=float).copy()
                        holder = v if src == "view_same" else v.copy()
                        rhs = holder[m.fields[gj]]
                        bump(probes, "field_assigned_from_field_view" + (
                            "_other_field" if gj != j else "_same_field"))
                    try:
                        if op["via"] == "item":
                            v[f] = rhs
                        else:
                            v[f].set_flattened(rhs.flatten() if hasattr(rhs, "vector") else rhs)
                    except Exception as e:
                        viol("op_raised", f"set_flattened raised {e!r}", f"op_raised:set_flat:{sigs}")
                        continue
                    cur = 0
                    for idx in m.order():
                        c = m.cells[idx]
                        if c is not None:
                            c[:, j] = vals[cur:cur + c.shape[0]]
                            cur += c.shape[0]
                    n_mut[0] += 1
                check_all("set_flat")
            elif k == "remove_readd":
                # remove a field and add a field of the SAME name again: it comes back as the last
                # column, zero-filled, with the default unit
                if m.nf < 2 or big or _REGIME[0] == "complex":
                    continue
                j = op["f"] % m.nf
                name = m.fields[j]
                try:
                    v.remove_fields([name])
                    v.add_fields([name])
                except Exception as e:
                    viol("op_raised", f"remove_fields/add_fields({name!r}) raised {e!r}",
                         f"op_raised:remove_readd:{sigs}")
                    resync("v")
                    continue
                bump(probes, "field_removed_and_re_added")
                m.fields = [f for q, f in enumerate(m.fields) if q != j] + [name]
                m.units = [u for q, u in enumerate(m.units) if q != j] + ["none"]
                for idx, c in m.cells.items():
                    if c is not None:
                        kept = np.delete(c, j, axis=1)
                        m.cells[idx] = np.hstack([kept, np.zeros((c.shape[0], 1))])
                n_mut[0] += 1
                check_all("remove_readd")
            elif k == "rename":
                bump(probes, "setter_" + op["which"])
                if op["which"] == "fields":
                    new = [f"r{op['tag']}_{q}" for q in range(m.nf)]
                else:
                    new = [f"unit{op['tag']}_{q}" for q in range(m.nf)]
                arg = tuple(new) if op["form"] == "tuple" else list(new)
                try:
                    setattr(v, op["which"], arg)
                except Exception as e:
                    viol("op_raised", f"{op['which']} setter with {arg!r} raised {e!r}",
                         f"op_raised:setter:{op['which']}:{sigs}")
                    continue
                if op["which"] == "fields":
                    m.fields = list(new)
                else:
                    m.units = list(new)
                n_mut[0] += 1
                check_all("rename")
            elif k == "flat_restore":
                j = op["f"] % m.nf
                f = m.fields[j]
                npop = sum(1 for c in m.cells.values() if c is not None and c.shape[0])
                if npop == 0:
                    continue
                if big and (op["sym"] == "*" or op["x"] != int(op["x"])):
                    continue
                if npop == 1:
                    bump(probes, "flat_restore_single_populated_cell")
                bump(probes, "flat_restore")
                try:
                    snap = v[f].flatten()
                    want = np.array(snap, copy=True)
                    whole = v.flatten() if op["whole"] else None
                    whole_want = None if whole is None else np.array(whole, copy=True)
                    fv = v[f]
                    if op["sym"] == "+":
                        fv += op["x"]
                    elif op["sym"] == "-":
                        fv -= op["x"]
                    else:
                        fv *= op["x"]
                    # results handed out earlier are values, not windows into the vector
                    if not _arr_eq(np.asarray(snap, dtype=float), np.asarray(want, dtype=float)) or (
                            whole is not None and not _arr_eq(np.asarray(whole, dtype=float),
                                                              np.asarray(whole_want, dtype=float))):
                        viol("flatten_result_aliases_vector", f"a flatten() result of field {f!r} "
                             f"changed when the field was modified afterwards ({npop} populated "
                             f"cells)", f"flatten_result_aliases_vector:{sigs}")
                    v[f].set_flattened(want.copy())
                except Exception as e:
                    viol("op_raised", f"flatten / {op['sym']}= / set_flattened on {f!r} raised {e!r}",
                         f"op_raised:flat_restore:{sigs}")
                    resync("v")
                    continue
                # model: the column is back to what flatten() returned (numpy assignment casting)
                cur = 0
                for idx in m.order():
                    c = m.cells[idx]
                    if c is not None:
                        with np.errstate(all="ignore"):
                            c[:, j] = want[cur:cur + c.shape[0]]
                        cur += c.shape[0]
                n_mut[0] += 1
                check_all("flat_restore")
            elif k == "add_fields":
                if big:
                    continue   # new columns are float zeros: the cells would turn float64
                names = [f"n{op['tag']}_{q}" for q in range(op["n"])]
                names = [x for x in names if x not in m.fields]
                if not names:
                    continue
                arg = names[0] if (op["as_str"] and len(names) == 1) else (
                    tuple(names) if op["tag"] % 2 else list(names))
                try:
                    v.add_fields(arg)
                except Exception as e:
                    viol("op_raised", f"add_fields({arg!r}) raised {e!r}",
                         f"op_raised:add_fields:{sigs}")
                    continue
                m.fields += names
                m.units += ["none"] * len(names)
                for idx, c in m.cells.items():
                    if c is not None:
                        m.cells[idx] = np.hstack([c, np.zeros((c.shape[0], len(names)))])
                n_mut[0] += 1
                check_all("add_fields")
            elif k == "remove_fields":
                js = sorted({x % m.nf for x in op["ff"]})
                if len(js) >= m.nf:
                    js = js[: m.nf - 1]
                names = [m.fields[j] for j in js]
                if op["missing"]:
                    names.append("no_such_field")
                if not names:
                    continue
                if op.get("rev"):
                    names = names[::-1]
                for _ in range(op.get("dup", 0)):
                    if js:      # repeat one of the EXISTING names somewhere in the list
                        nm = m.fields[js[op.get("dup_at", 0) % len(js)]]
                        names.insert((op.get("dup_at", 0) // 7) % (len(names) + 1), nm)
                        bump(probes, "remove_fields_duplicate_name")
                arg = names[0] if (op["as_str"] and len(names) == 1) else list(names)
                if op.get("form") == "tuple" and not isinstance(arg, str):
                    arg = tuple(arg)
                try:
                    v.remove_fields(arg)
                except Exception as e:
                    viol("op_raised", f"remove_fields({arg!r}) raised {e!r}",
                         f"op_raised:remove_fields:{sigs}")
                    continue
                keep = [j for j in range(m.nf) if j not in js]
                m.fields = [m.fields[j] for j in keep]
                m.units = [m.units[j] for j in keep]
                for idx, c in m.cells.items():
                    if c is not None:
                        m.cells[idx] = c[:, keep].copy()
                n_mut[0] += 1
                check_all("remove_fields")
            elif k in ("copy_check", "continue_on_copy"):
                how = op.get("how", "copy")
                try:
                    if how == "deepcopy":
                        c = copy.deepcopy(v)
                        bump(probes, "copy_via_deepcopy")
                    elif how == "pickle":
                        import pickle

                        c = pickle.loads(pickle.dumps(v))
                        bump(probes, "copy_via_pickle")
                    else:
                        c = v.copy()
                except Exception as e:
                    viol("op_raised", f"{how} of the vector raised {e!r}", f"op_raised:copy:{how}:{sigs}")
                    continue
                vecs["c"] = (c, m.copy())
                vecs["c"][1].meta = dict(c.metadata) if not dict(c.metadata) else dict(m.meta)
                check_all("copy")
                # copies share no mutable state: no common list / dict / array objects
                shared = []
                if c.fields is v.fields:
                    shared.append("fields")
                if c.units is v.units:
                    shared.append("units")
                if c.metadata is v.metadata:
                    shared.append("metadata")
                if c.data is v.data:
                    shared.append("data")
                for idx_ in m.order():
                    a_, b_ = read_cell(c, idx_), read_cell(v, idx_)
                    if a_ is not None and b_ is not None and (a_ is b_ or np.shares_memory(a_, b_)):
                        shared.append(f"cell{idx_}")
                        break
                if shared:
                    viol("copy_shares_state", f"copy() shares {shared} with its source",
                         "copy_shares_state:" + shared[0].split("(")[0])
                if k == "continue_on_copy":
                    # the copy becomes the working vector, the original stays live as 'w'
                    vecs["w"] = vecs["v"]
                    vecs["v"] = vecs.pop("c")
                    continue
                # mutate the copy in every way; the original must not move (and vice versa)
                bump(probes, "copy_independence_checked")
                cm_ = vecs["c"][1]
                idx = tuple(i % s for i, s in zip(op["idx"], m.shape))
                try:
                    populated = [i for i in cm_.order() if cm_.cells[i] is not None and
                                 cm_.cells[i].shape[0]]
                    if populated:
                        # in-place edit of a cell array of the copy
                        pi = populated[op["fill"] % len(populated)]
                        read_cell(c, pi)[0, 0] = 12345.5
                        cm_.cells[pi][0, 0] = 12345.5
                    a = _cell(op["fill"], 2, m.nf)
                    c[idx if nd > 1 else idx[0]] = a.copy()
                    cm_.cells[idx] = a
                    c[m.fields[0]] += 1
                    for cc in cm_.cells.values():
                        if cc is not None:
                            cc[:, 0] = cc[:, 0] + 1
                    c.add_fields("only_on_copy")
                    cm_.fields.append("only_on_copy")
                    cm_.units.append("none")
                    for i2, cc in cm_.cells.items():
                        if cc is not None:
                            cm_.cells[i2] = np.hstack([cc, np.zeros((cc.shape[0], 1))])
                    c.metadata["copy_key"] = 1
                    cm_.meta["copy_key"] = 1
                except Exception as e:
                    viol("op_raised", f"mutating the copy raised {e!r}", f"op_raised:copy_mut:{sigs}")
                    vecs.pop("c", None)
                    continue
                check_all("copy_mutated")
                vecs.pop("c", None)
                if "copy_key" in v.metadata:
                    v.metadata.pop("copy_key", None)
            elif k == "metadata":
                slot = op["on"] if op["on"] in vecs else "v"
                vv, mm = vecs[slot]
                vv.metadata[op["key"]] = op["val"]
                mm.meta[op["key"]] = op["val"]
                if len(vecs) > 1:
                    bump(probes, "metadata_independence_checked")
                check_all("metadata")
            elif k == "rejected":
                what = op["what"]
                if big and what in ("wrong_columns_slice", "wrong_count"):
                    continue   # their valid leading arrays are float zeros: would mix dtypes per vector
                idx = tuple(i % s for i, s in zip(op["idx"], m.shape))
                exp = None
                try:
                    if what == "wrong_columns":
                        exp = ValueError
                        bad_a = np.zeros((2, m.nf + 1 + op["idx"][1] % 2)) if op["idx"][2] % 4 else \
                            np.zeros((2, max(0, m.nf - 1)))
                        pathsel = op["idx"][0] % 4
                        if pathsel == 0:
                            v[idx if nd > 1 else idx[0]] = bad_a
                        elif pathsel == 1:
                            v.set_data(bad_a, *idx)
                        elif pathsel == 2:
                            # single cell addressed through a slice: list form
                            sl = tuple(slice(i, i + 1) for i in idx)
                            v[sl if nd > 1 else sl[0]] = [bad_a]
                        else:
                            # from another Vector with a different field count
                            nf2 = m.nf + 1
                            sv = V.from_shape((1,), num_fields=nf2)
                            sv[0] = np.zeros((1, nf2))
                            sl = tuple(slice(i, i + 1) for i in idx)
                            v[sl if nd > 1 else sl[0]] = sv
                    elif what == "wrong_columns_slice":
                        exp = ValueError
                        objs, lists = _resolve_index(op["index"], m.shape, 0)
                        cnt = len(list(itertools.product(*lists)))
                        if cnt < 2 or all(isinstance(o, (int, np.integer)) for o in objs):
                            continue
                        vals = [np.zeros((1, m.nf)) for _ in range(cnt)]
                        vals[-1] = np.zeros((1, m.nf + 2))
                        v.set_data(vals, *objs)
                    elif what == "duplicate_field":
                        exp = ValueError
                        v.add_fields([m.fields[0]])
                    elif what == "out_of_range":
                        exp = IndexError
                        bad = list(idx)
                        bad[op["idx"][0] % nd] = m.shape[op["idx"][0] % nd] + 1
                        v.set_data(np.zeros((1, m.nf)), *bad)
                    elif what == "wrong_type":
                        exp = TypeError
                        v[idx if nd > 1 else idx[0]] = [[0.0] * m.nf]
                    elif what == "wrong_count":
                        exp = ValueError
                        objs, lists = _resolve_index(op["index"], m.shape, 0)
                        cnt = len(list(itertools.product(*lists)))
                        if not any(isinstance(o, slice) for o in objs):
                            continue
                        v[tuple(objs) if len(objs) > 1 else objs[0]] = [
                            np.zeros((1, m.nf)) for _ in range(cnt + 1)]
                    elif what == "wrong_nindex":
                        exp = ValueError
                        v.get_data(*(list(idx) + [0]))
                    elif what == "fields_setter_count":
                        exp = ValueError
                        n_new = m.nf + 1 if op["idx"][0] % 2 else max(0, m.nf - 1)
                        v.fields = [f"w{q}" for q in range(n_new)]
                    elif what == "fields_setter_dup":
                        exp = ValueError
                        if m.nf < 2:
                            continue
                        v.fields = ["same"] * m.nf
                    elif what == "units_setter_count":
                        exp = ValueError
                        v.units = ["u"] * (m.nf + 1 + op["idx"][0] % 2)
                    raised = None
                except Exception as e:
                    raised = e
                if raised is None:
                    viol("rejected_op_accepted", f"{what} did not raise", f"rejected_accepted:{what}:{sigs}")
                    if what.endswith("_setter_count") or what.endswith("_setter_dup"):
                        # the vector now contradicts itself (names vs columns): nothing to continue
                        if any(c is not None and c.shape[1] != v.num_fields for c in m.cells.values()):
                            viol("cell_invariant", f"after {what} was accepted: num_fields="
                                 f"{v.num_fields}, fields={v.fields}, units={v.units}, populated cells "
                                 f"have {m.nf} columns", f"cell_invariant:{what}:{sigs}")
                        raise _Stop()
                    resync("v")
                else:
                    bump(probes, f"rejected_{what}")
                    if not isinstance(raised, (ValueError, IndexError, TypeError, KeyError)):
                        viol("rejected_op_wrong_error", f"{what} raised {raised!r}",
                             f"rejected_wrong_error:{what}:{sigs}")
                if what in ("wrong_columns_slice", "wrong_count"):
                    # a multi-cell assignment may have stored the valid leading arrays before it
                    # met the bad one: the property states invariants, not atomicity, so the model
                    # follows the implementation here and only the invariants are checked
                    try:
                        resync("v")
                    except Exception as e:
                        viol("cell_read_raised", f"after rejected {what}: {e!r}",
                             f"cell_read:rejected:{what}:{sigs}")
                        raise _Stop()
                check_all(f"rejected:{what}")
    except _Stop:
        pass
    res["steps"] = len(kinds)
    nd0 = len(plan["ops"][0]["shape"])
    res["sched"] = [f"{nd0}:{g}" for g in simhist.ngrams(kinds, 3)]
    if n_mut[0] >= 3:
        res["nontrivial"] = plan_digest(plan["ops"])
    seen, uniq = set(), []
    for v_ in res["violations"]:
        if (v_["oracle"], v_["sig"]) not in seen:
            seen.add((v_["oracle"], v_["sig"]))
            uniq.append(v_)
    res["violations"] = uniq
    res["digest"] = plan_digest([plan["ops"], sorted((x["oracle"], x["sig"]) for x in uniq),
                                 res["steps"]])
    return res


def plan_size(plan):
    return len(plan["ops"])


def shrink(plan):
    # keep op 0 (the creation)
    head, tail = plan["ops"][:1], plan["ops"][1:]
    for p in simhist.shrink_history({"ops": tail}, "ops"):
        yield {**plan, "ops": copy.deepcopy(head) + p["ops"]}
    c = plan["ops"][0]
    if len(c["shape"]) > 1 or any(s > 1 for s in c["shape"]) or c["nf"] > 1 or c["prefill"] > 0:
        for shape in ([s for s in c["shape"][:-1]], [max(1, s - 1) for s in c["shape"]]):
            if shape and shape != c["shape"]:
                p = copy.deepcopy(plan)
                p["ops"][0]["shape"] = shape
                if len(shape) > 1:
                    p["ops"][0]["how"] = "from_shape"
                yield p
        if c["nf"] > 1:
            p = copy.deepcopy(plan)
            p["ops"][0]["nf"] = c["nf"] - 1
            yield p
        if c["prefill"] > 0:
            p = copy.deepcopy(plan)
            p["ops"][0]["prefill"] = 0.0
            yield p
    for i, op in enumerate(plan["ops"]):
        if op.get("partial"):
            p = copy.deepcopy(plan)
            p["ops"][i]["partial"] = 0
            yield p
        if "index" in op:
            for d, s in enumerate(op["index"]):
                if s["t"] != "int":
                    p = copy.deepcopy(plan)
                    p["ops"][i]["index"][d] = {"t": "int", "i": 0}
                    yield p
