"""C03 — Dataset containers stay coherent under any history of operations.
Engine: E-simhist (histories; NumPy as the indexing specification; differential in-place vs copy)."""
from __future__ import annotations

import copy
import hashlib
import warnings

import numpy as np

from .. import simhist
from ..core import HarnessError, Rng, Violation, bump, new_result, plan_digest

ID = "C03"
LEVEL = "exploration"
ENGINE = "simhist"
TIERS = {
    "quick": {"runs": 150000, "budget_s": 70, "chunk": 500},
    "thorough": {"runs": 6000000, "budget_s": 1500, "chunk": 2000},
}
KINDS = ["copy", "set_origin", "set_sampling", "set_units", "set_name", "set_array", "pad", "crop",
         "bin", "resample", "getitem", "rejected"]
RULE = ("one evaluation = one seeded history (depth <= 12) over Dataset/Dataset2d/3d/4d/4dstem "
        "construction (ndim 1-5, length-1 axes, occasionally an axis of 16-256, int/uint/float/"
        "float16/complex/bool dtypes, C/Fortran/strided/read-only/negative-stride input), copy, calibration/array "
        "setters, pad, crop, bin, fourier_resample (each executed BOTH as copying variant on the "
        "working dataset and as in-place variant on a copy, results compared), indexing (ints, "
        "slices with +/- steps and Python or NumPy-integer members, one list incl. negative "
        "elements, Ellipsis, partial tuples; NumPy is the specification) "
        "and rejected operations; the working variable is re-bound to results so dimensionality "
        "changes flow on. Run i < |K|^2 (quick) / |K|^3 (thorough) starts with the i-th ordered "
        "pair/triple of operation kinds (coverage steering), the rest is free sampling. "
        "distinct_nontrivial = distinct history digests with >= 2 state-changing operations.")
SCHED_MEASURE = "distinct operation-kind 3-grams visited (12 kinds -> 1728 possible)"
SIM_TIME_NOTE = "no clock in this engine (sequential history simulation); sim_time_s is 0"
ASSUMPTIONS = [
    "index expressions leave at least one axis, select at least one element per axis, contain at "
    "most one list, and never place a slice between the list and an integer index (NumPy then moves "
    "the broadcast axis to the front; the calibration order in that corner is not part of the claim)",
    "numerical correctness of pad/crop/bin/resample is C06's subject: here the copying and in-place "
    "variants are compared with each other, and the source of a copying variant with its snapshot",
    "operation arguments keep every axis non-empty",
    "origin is not compared against a physical model under slicing (the statement only requires the "
    "kept axes' calibration in order and sampling x step)",
]
COMPONENTS_REAL = ["quantem.core.datastructures.dataset/dataset2d/dataset3d/dataset4d/dataset4dstem",
                   "quantem.core.utils.validators", "numpy indexing (the specification itself)"]
COMPONENTS_STUB = ["none"]
EXPECTED_PROBES = ["cls_Dataset", "cls_Dataset2d", "cls_Dataset3d", "cls_Dataset4d", "cls_Dataset4dstem",
                   "ndim_changed_by_getitem", "getitem_list", "getitem_ellipsis", "getitem_negative_step",
                   "getitem_partial", "length1_axis", "rejected_setter", "rejected_shape_arg",
                   "inplace_vs_copy_compared", "pairs_steered", "complex_dtype", "int_dtype",
                   "axis_ge_16", "getitem_numpy_int_slice_step", "bin_factor_equals_axis_length",
                   "pad_width_larger_than_axis", "pad_mode_other", "nonfinite_values_in_data",
                   "non_native_byte_order", "layout_F", "layout_strided", "layout_readonly", "layout_negstride"]

_D = {}
_registry0 = None


_SETUP_DONE = []


RULE = RULE + ' Round 15: the in-place variant is additionally executed directly on the working dataset itself (which may be a NumPy view of an earlier, still monitored source); values are compared with the run on the copy only for identical (C) layouts.'


def setup():
    if _SETUP_DONE:
        return
    _SETUP_DONE.append(1)
    global _registry0
    from .. import core

    core.use_repo()
    warnings.filterwarnings("ignore")
    from quantem.core.datastructures.dataset import Dataset
    from quantem.core.datastructures.dataset2d import Dataset2d
    from quantem.core.datastructures.dataset3d import Dataset3d
    from quantem.core.datastructures.dataset4d import Dataset4d
    from quantem.core.datastructures.dataset4dstem import Dataset4dstem

    _D.update(Dataset=Dataset, Dataset2d=Dataset2d, Dataset3d=Dataset3d, Dataset4d=Dataset4d,
              Dataset4dstem=Dataset4dstem)
    _registry0 = dict(Dataset._registry)


# ------------------------------------------------------------------------------------------
def _gen_create(r):
    cls = r.weighted([("Dataset", 5), ("Dataset2d", 2), ("Dataset3d", 2), ("Dataset4d", 1),
                      ("Dataset4dstem", 2)])
    ndim = {"Dataset": r.pick([1, 2, 3, 4, 5]), "Dataset2d": 2, "Dataset3d": 3, "Dataset4d": 4,
            "Dataset4dstem": 4}[cls]
    shape = [r.pick([1, 2, 3, 4, 5, 6]) for _ in range(ndim)]
    big = r.fork("big")
    if ndim <= 3 and big.chance(0.06):      # axes beyond the usual small ones (size thresholds)
        shape[big.randrange(ndim)] = big.pick([16, 17, 32, 33, 64, 100, 256])
    return {"op": "create", "cls": cls, "shape": shape,
            "dtype": r.pick(["float64", "float32", "int32", "uint8", "int64", "complex64"]) if r.chance(0.85)
            else r.fork("dt").pick(["bool", "float16", "complex128", "uint16", "int8",
                                    ">f4", ">u2", ">c8", ">i4", ">f8"]),     # non-native byte order (MRC / DM files)
            # memory layout of the array handed to from_array
            "layout": r.fork("layout").pick(["C", "C", "C", "F", "strided", "readonly", "negstride"]),
            "fill": r.randrange(10 ** 6), "calib": r.chance(0.7), "int_calib": r.chance(0.2)}


def _raw_index(r):
    out = []
    for _ in range(5):
        k = r.weighted([("int", 3), ("slice", 5), ("all", 2)])
        if k == "int":
            out.append({"t": "int", "i": r.randrange(100), "np": r.chance(0.2)})
        elif k == "slice":
            out.append({"t": "slice", "a": r.randrange(100), "b": r.randrange(100),
                        "step": r.pick([1, 1, 2, -1, -2, 3, None]), "open": r.pick([0, 1, 2, 3])})
        else:
            out.append({"t": "all"})
    return {"dims": out, "n": r.pick([1, 2, 3, 4, 5]), "ellipsis": r.pick([None, None, 0, 1, 2]),
            "list_at": r.pick([None, None, None, 0, 1, 2]),
            "list": [r.randrange(100) for _ in range(r.pick([1, 2, 3]))],
            "as_tuple": r.chance(0.7)}


def _gen_op(r, k):
    a = lambda n=5: [r.randrange(100) for _ in range(n)]  # noqa: E731
    if k == "copy":
        return {"op": k, "rebind": r.chance(0.5)}
    if k in ("set_origin", "set_sampling"):
        return {"op": k, "form": r.pick(["list", "tuple", "array", "scalar", "int_list"]),
                "vals": [round(r.uniform(-5, 5), 3) for _ in range(5)]}
    if k == "set_units":
        return {"op": k, "form": r.pick(["list", "tuple", "str"]), "tag": r.randrange(100)}
    if k == "set_name":
        return {"op": k, "which": r.pick(["name", "signal_units"]), "tag": r.randrange(100)}
    if k == "set_array":
        return {"op": k, "shape": [r.pick([1, 2, 3, 4]) for _ in range(5)],
                "dtype": r.pick(["float64", "int32", "complex64", "float32"]),
                "fill": r.randrange(10 ** 6), "lower_ndim": r.chance(0.1)}
    if k == "pad":
        return {"op": k, "form": r.pick(["int", "pair", "pairs", "output_shape"]), "w": a(10),
                "mode": r.pick(["constant", "constant", "edge"]) if r.chance(0.8) else
                r.fork("mode").pick(["reflect", "wrap", "symmetric", "maximum", "linear_ramp"]),
                "wide": r.fork("wide").chance(0.1), "rebind": r.pick(["copy", "inplace"]),
                # the in-place variant ALSO executed directly on the working dataset - which may be a
                # NumPy view of an earlier source (result of indexing): the source must stay put
                "direct": r.fork("direct").chance(0.3)}
    if k == "crop":
        return {"op": k, "axes": r.pick(["none", "int", "tuple"]), "ax": a(), "w": a(10),
                "stop_form": a(), "rebind": r.pick(["copy", "inplace"]),
                # the in-place variant ALSO executed directly on the working dataset - which may be a
                # NumPy view of an earlier source (result of indexing): the source must stay put
                "direct": r.fork("direct").chance(0.3)}
    if k == "bin":
        return {"op": k, "axes": r.pick(["none", "int", "tuple"]), "ax": a(), "f": a(),
                "fform": r.pick(["int", "tuple", "list"]), "reducer": r.pick(["sum", "mean", "SUM"]),
                "rebind": r.pick(["copy", "inplace"]),
                # the in-place variant ALSO executed directly on the working dataset - which may be a
                # NumPy view of an earlier source (result of indexing): the source must stay put
                "direct": r.fork("direct").chance(0.3)}
    if k == "resample":
        return {"op": k, "axes": r.pick(["none", "int", "tuple"]), "ax": a(), "o": a(),
                "by": r.pick(["out_shape", "factors", "factor_scalar"]),
                "fac": [r.pick([0.5, 1.0, 1.5, 2.0, 0.75]) for _ in range(5)],
                "rebind": r.pick(["copy", "inplace"]),
                # the in-place variant ALSO executed directly on the working dataset - which may be a
                # NumPy view of an earlier source (result of indexing): the source must stay put
                "direct": r.fork("direct").chance(0.3)}
    if k == "getitem":
        return {"op": k, "index": _raw_index(r), "rebind": r.chance(0.7)}
    if k == "rejected":
        return {"op": k, "what": r.pick(["origin_len", "sampling_len", "units_len", "origin_type",
                                         "units_type", "array_ndim", "pad_both", "pad_none",
                                         "crop_len", "bin_len", "bin_zero", "bin_float", "bin_reducer",
                                         "resample_both", "resample_len", "resample_zero",
                                         "output_shape_len", "index_oob"]), "x": a()}
    raise ValueError(k)


def gen(rng: Rng, tier, i):
    nk = len(KINDS)
    n = rng.pick([2, 4, 6, 9, 12])
    steer = []
    if tier == "quick" and i < nk * nk:
        steer = [KINDS[i // nk], KINDS[i % nk]]
    elif tier == "thorough" and i < nk ** 3:
        steer = [KINDS[i // (nk * nk)], KINDS[(i // nk) % nk], KINDS[i % nk]]
    kinds_en = rng.subset(KINDS, 0.7, 3)
    ops = [_gen_create(rng.fork("create"))]
    for j in range(max(n, len(steer))):
        k = steer[j] if j < len(steer) else rng.pick(kinds_en)
        ops.append(_gen_op(rng.fork(("op", j)), k))
    return {"ops": ops, "steered": bool(steer)}


# ------------------------------------------------------------------------------------------
def _mkarray(shape, dtype, fill):
    g = np.random.Generator(np.random.PCG64(fill))
    dt = np.dtype(dtype)
    if dt.kind == "c":
        a = (g.standard_normal(shape) + 1j * g.standard_normal(shape)).astype(dt)
    elif dt.kind == "f":
        a = g.standard_normal(shape).astype(dt)
    if dt.kind in "fc" and fill % 6 == 0 and a.size:
        # special values in the data: NaN, +-inf, -0.0 (a 'bad pixel')
        a.flat[fill % a.size] = np.nan
        a.flat[(fill // 7) % a.size] = [np.inf, -np.inf, -0.0, np.nan][fill % 4]
    elif dt.kind == "u":
        a = g.integers(0, 200, shape).astype(dt)
    elif dt.kind == "b":
        a = g.integers(0, 2, shape).astype(dt)
    else:
        a = g.integers(-50, 50, shape).astype(dt)
    return a


def _layout(a, layout):
    """Same values, another memory layout (what a caller may legitimately hand to from_array)."""
    if layout == "F":
        return np.asfortranarray(a)
    if layout == "strided":      # every second element of a wider buffer along the last axis
        w = np.zeros(a.shape[:-1] + (2 * a.shape[-1],), dtype=a.dtype)
        w[..., ::2] = a
        return w[..., ::2]
    if layout == "negstride":
        return np.ascontiguousarray(a[::-1])[::-1]
    if layout == "readonly":
        b = a.copy()
        b.setflags(write=False)
        return b
    return a.copy()


def _canon(a):
    """Contiguous copy with every NaN replaced by ONE NaN bit pattern (payload and sign of a NaN are
    not data; whether an element IS a NaN is)."""
    a = np.ascontiguousarray(a)
    if not a.dtype.isnative:
        a = a.astype(a.dtype.newbyteorder("="))      # values, not byte order (the dtype is compared apart)
    if a.dtype.kind == "f":
        m = np.isnan(a)
        if m.any():
            a = a.copy()
            a[m] = np.nan
    elif a.dtype.kind == "c":
        m = np.isnan(a.real) | np.isnan(a.imag)
        if m.any():
            a = a.copy()
            a[m] = complex(np.nan, np.nan)
    return a


def snap(ds):
    """Immutable snapshot of every public attribute that the property talks about."""
    return {
        "cls": type(ds).__name__,
        "dtype": str(ds.array.dtype),
        "shape": tuple(ds.array.shape),
        "bytes": hashlib.blake2b(_canon(ds.array).tobytes(), digest_size=10).hexdigest(),
        "origin": np.asarray(ds.origin, dtype=float).tolist(),
        "origin_dt": str(np.asarray(ds.origin).dtype),
        "sampling": np.asarray(ds.sampling, dtype=float).tolist(),
        "sampling_dt": str(np.asarray(ds.sampling).dtype),
        "units": list(ds.units),
        "name": ds.name,
        "signal_units": ds.signal_units,
    }


def snap_diff(a, b, ignore=()):
    return [k for k in a if k not in ignore and a[k] != b[k]]


def _resolve_index(spec, shape):
    """-> python index object (never empty axes, >=1 axis kept, no numpy axis transposition)"""
    nd = len(shape)
    n = max(1, min(spec["n"], nd))
    items = []
    for d in range(n):
        s, ln = spec["dims"][d], shape[d]
        if s["t"] == "int":
            i = s["i"] % ln
            if s["i"] % 3 == 0 and i > 0:
                i = i - ln  # negative index
            elif i == 0 and s["i"] % 5 == 0:
                i = -ln     # exactly -len
            items.append(np.int64(i) if s.get("np") else int(i))
        elif s["t"] == "slice":
            step = s["step"]
            a, b = s["a"] % ln, s["b"] % ln
            lo, hi = min(a, b), max(a, b) + 1
            if (step or 1) > 0:
                start, stop = lo, hi
            else:
                start, stop = hi - 1, (lo - 1 if lo > 0 else None)
            if s["open"] == 1:
                start = None
            elif s["open"] == 2:
                stop = None
            elif s["open"] == 3:
                start = stop = None
            if s["b"] % 6 == 0:
                # bounds far outside the axis (clipped by slice semantics)
                if (step or 1) > 0:
                    start, stop = -ln - 3, ln + 5
                else:
                    start, stop = ln + 5, -ln - 3
            sl = slice(start, stop, step)
            if len(range(ln)[sl]) == 0:
                sl = slice(None, None, step)
            if (s["a"] + s["b"]) % 4 == 0:
                # slice members computed with NumPy (np.int64 / np.intp), as in ds[::n // 3]
                ty = np.int64 if s["a"] % 2 else np.intp
                sl = slice(*(None if q is None else ty(q) for q in (sl.start, sl.stop, sl.step)))
            items.append(sl)
        else:
            items.append(slice(None))
    la = spec["list_at"]
    has_list = False
    if la is not None and la < n:
        ln = shape[la]
        cand = list(items)
        cand[la] = [(x % ln) - (ln if x % 7 == 0 else 0) for x in spec["list"]]   # some negative
        # advanced indices (ints + the list) must be adjacent, else numpy transposes
        adv = [q for q, it in enumerate(cand) if not isinstance(it, slice)]
        if adv == list(range(adv[0], adv[-1] + 1)):
            items = cand
            has_list = True
    # keep at least one axis
    if all(isinstance(it, (int, np.integer)) for it in items) and len(items) == nd:
        items[-1] = slice(None)
        adv = [q for q, it in enumerate(items) if not isinstance(it, slice)]
        if has_list and adv != list(range(adv[0], adv[-1] + 1)):
            items = [it if not isinstance(it, list) else slice(None) for it in items]
            has_list = False
    ell = spec["ellipsis"]
    used_ell = False
    if ell is not None and len(items) < nd + 1:
        pos = min(ell, len(items))
        # an Ellipsis between advanced indices also separates them: only at the ends then
        adv = [q for q, it in enumerate(items) if not isinstance(it, slice)]
        if not adv or pos <= adv[0] or pos > adv[-1]:
            # trailing dims after an Ellipsis address the LAST axes: re-normalise them
            tail = items[pos:]
            head = items[:pos]
            new_tail = []
            for q, it in enumerate(tail):
                axis = nd - len(tail) + q
                new_tail.append(_renorm(it, shape[axis]))
            # after re-mapping, advanced indices must still be adjacent w.r.t. real axes
            full = head + [slice(None)] * (nd - len(head) - len(new_tail)) + new_tail
            adv2 = [q for q, it in enumerate(full) if not isinstance(it, slice)]
            if (not adv2 or adv2 == list(range(adv2[0], adv2[-1] + 1))) and not all(
                    isinstance(it, (int, np.integer)) for it in full):
                items = head + [Ellipsis] + new_tail
                used_ell = True
    if len(items) == 1 and not spec["as_tuple"]:
        return items[0], has_list, used_ell
    return tuple(items), has_list, used_ell


def _renorm(it, ln):
    if isinstance(it, (int, np.integer)):
        v = int(it) % ln
        return type(it)(v) if isinstance(it, np.integer) else v
    if isinstance(it, list):
        return [(x % ln) - (ln if x < 0 else 0) for x in it]
    if isinstance(it, slice):
        if len(range(ln)[slice(*(None if q is None else int(q) for q in (it.start, it.stop, it.step)))]) == 0:
            return slice(None, None, it.step)
        return it
    return it


def _expand(index, nd):
    idx = index if isinstance(index, tuple) else (index,)
    if any(x is Ellipsis for x in idx):
        p = [q for q, x in enumerate(idx) if x is Ellipsis][0]
        idx = idx[:p] + (slice(None),) * (nd - (len(idx) - 1)) + idx[p + 1:]
    idx = idx + (slice(None),) * (nd - len(idx))
    return idx


class _Stop(Exception):
    pass


def run(plan):
    from quantem.core.datastructures.dataset import Dataset

    res = new_result()
    probes = res["probes"]
    kinds = []
    n_mut = [0]
    tag = [""]
    cur_op = [{}]
    if plan.get("steered"):
        bump(probes, "pairs_steered")

    def viol(oracle, detail, sig):
        res["violations"].append(Violation(oracle, f"{tag[0]}: {detail}", sig))

    def invariants(ds, where):
        nd = ds.array.ndim
        lo, ls, lu = len(np.atleast_1d(ds.origin)), len(np.atleast_1d(ds.sampling)), len(ds.units)
        if not (lo == ls == lu == nd) or np.ndim(ds.origin) != 1 or np.ndim(ds.sampling) != 1:
            viol("calibration_length", f"{where}: ndim={nd} len(origin)={lo} len(sampling)={ls} "
                 f"len(units)={lu}", f"calibration_length:{where.split(':')[0]}")
            raise _Stop()
        want = {"Dataset2d": 2, "Dataset3d": 3, "Dataset4d": 4, "Dataset4dstem": 4}.get(
            type(ds).__name__)
        if want is not None and nd != want:
            viol("class_dimension", f"{where}: {type(ds).__name__} with ndim={nd}",
                 f"class_dimension:{where.split(':')[0]}")
            raise _Stop()
        if ds.shape != ds.array.shape or ds.ndim != nd:
            viol("class_dimension", f"{where}: shape/ndim properties disagree with the array",
                 f"shape_property:{where.split(':')[0]}")
        if dict(Dataset._registry) != _registry0:
            viol("registry_changed", f"{where}: Dataset._registry changed", "registry_changed")

    def both_variants(ds, opname, call):
        """call(target, in_place) -> result. Copy variant on ds (must not move), in-place variant
        on a copy; results must agree. Returns (copy_result, inplace_result) or None."""
        # both variants start from layout-identical inputs (a fancy-indexed array may be
        # non-C-contiguous while its copy is, which changes float summation order by an ulp)
        orig = ds
        ds = ds.copy()
        before = snap(ds)
        twin = ds.copy()
        try:
            r_copy = call(ds, False)
        except Exception as e:
            viol("op_raised", f"{opname} (copying variant) raised {e!r}",
                 f"op_raised:{opname}:{type(e).__name__}")
            return None
        after = snap(ds)
        d = snap_diff(before, after)
        if d:
            viol("source_modified", f"{opname} (copying variant) changed the source: {d}",
                 f"source_modified:{opname}:{','.join(d)}")
        if r_copy is None or r_copy is ds:
            viol("copy_variant_returned_nothing", f"{opname} returned {type(r_copy).__name__}",
                 f"copy_variant_return:{opname}")
            return None
        try:
            r_in = call(twin, True)
        except Exception as e:
            viol("op_raised", f"{opname} (in-place variant) raised {e!r}",
                 f"op_raised:{opname}:inplace:{type(e).__name__}")
            return None
        if r_in is not None:
            viol("inplace_variant_returned_value", f"{opname}(modify_in_place=True) returned "
                 f"{type(r_in).__name__}", f"inplace_return:{opname}")
        bump(probes, "inplace_vs_copy_compared")
        a, b = snap(r_copy), snap(twin)
        d = snap_diff(a, b, ignore=("name", "origin_dt", "sampling_dt"))
        if d:
            viol("inplace_vs_copy", f"{opname}: copying vs in-place differ in {d}: "
                 f"{ {k: (a[k], b[k]) for k in d if k != 'bytes'} }",
                 f"inplace_vs_copy:{opname}:{','.join(d)}")
        if np.shares_memory(r_copy.array, ds.array) and opname != "crop":
            pass  # views are allowed; only bit-identity of the source is required
        invariants(r_copy, f"{opname}:copy")
        invariants(twin, f"{opname}:inplace")
        keep(ds, tag[0])
        if cur_op[0].get("direct"):
            # third execution: in place on the working object itself (no private buffer)
            # values are compared only when the working array has the layout of its copy (C order):
            # another layout changes the summation order of bin / the FFT plan, and with it the
            # rounding (float16 Fortran data: 4 false alarms in 540 000 thorough runs)
            same_layout = bool(orig.array.flags["C_CONTIGUOUS"])
            try:
                call(orig, True)
            except Exception as e:
                viol("op_raised", f"{opname} (in-place, directly on the working dataset) raised {e!r}",
                     f"op_raised:{opname}:direct:{type(e).__name__}")
                return r_copy, twin
            bump(probes, "inplace_directly_on_working_dataset")
            if orig.array.base is not None or any(
                    np.shares_memory(orig.array, o.array) for o, _, _ in kept_src):
                bump(probes, "inplace_directly_on_a_view_of_a_kept_source")
            c = snap(orig)
            d = snap_diff(b, c, ignore=("name", "origin_dt", "sampling_dt", "bytes"))
            same = orig.array.shape == twin.array.shape and (not same_layout or bool(np.allclose(
                np.asarray(orig.array), np.asarray(twin.array), rtol=1e-5, atol=1e-8, equal_nan=True)))
            if not same_layout:
                bump(res["obs"], "direct_inplace_values_not_compared_other_layout")
            if d or not same:
                viol("inplace_vs_copy", f"{opname}: in place on the working dataset vs on its copy "
                     f"differ in {d or ['values']}", f"inplace_direct:{opname}:{','.join(d) or 'values'}")
            invariants(orig, f"{opname}:direct")
            recheck_kept()
            return r_copy, orig
        return r_copy, twin

    ds = None
    kept_src = []   # earlier sources whose results the history moved on to: they must never move again

    def recheck_kept():
        for q, (obj, sn, born) in enumerate(list(kept_src)):
            d = snap_diff(sn, snap(obj))
            if d:
                viol("source_modified_later", f"a dataset that was the source of {born} changed "
                     f"afterwards: {d}", f"source_modified_later:{born.split(':')[1]}:{','.join(d)}")
                kept_src.pop(q)
                return

    def keep(obj, born):
        kept_src.append((obj, snap(obj), born))
        if len(kept_src) > 3:
            kept_src.pop(0)

    try:
        for n_op, op in enumerate(plan["ops"]):
            k = op["op"]
            kinds.append(k)
            tag[0] = f"op#{n_op}:{k}"
            cur_op[0] = op
            if kept_src:
                recheck_kept()
            if k == "create":
                cls = _D[op["cls"]]
                arr = _mkarray(tuple(op["shape"]), op["dtype"], op["fill"])
                nd = arr.ndim
                bump(probes, f"cls_{op['cls']}")
                if 1 in op["shape"]:
                    bump(probes, "length1_axis")
                if np.dtype(op["dtype"]).kind == "c":
                    bump(probes, "complex_dtype")
                if arr.dtype.kind in "fc" and not np.isfinite(arr).all():
                    bump(probes, "nonfinite_values_in_data")
                if not arr.dtype.isnative:
                    bump(probes, "non_native_byte_order")
                if np.dtype(op["dtype"]).kind in "iu":
                    bump(probes, "int_dtype")
                g = Rng(op["fill"])
                kw = {}
                if op["calib"]:
                    if op["int_calib"]:
                        kw = {"origin": [g.randrange(-3, 4) for _ in range(nd)],
                              "sampling": tuple(g.randrange(1, 4) for _ in range(nd)),
                              "units": tuple(f"u{q}" for q in range(nd))}
                    else:
                        kw = {"origin": np.array([round(g.uniform(-3, 3), 2) for _ in range(nd)]),
                              "sampling": [round(g.uniform(0.1, 2), 2) for _ in range(nd)],
                              "units": [f"u{q}" for q in range(nd)], "name": "w", "signal_units": "e"}
                try:
                    lay = op.get("layout", "C")
                    if lay != "C":
                        bump(probes, "layout_" + lay)
                    if max(op["shape"]) >= 16:
                        bump(probes, "axis_ge_16")
                    ds = cls.from_array(_layout(arr, lay), **kw)
                except Exception as e:
                    viol("op_raised", f"{op['cls']}.from_array(shape={op['shape']}) raised {e!r}",
                         f"op_raised:create:{op['cls']}")
                    raise _Stop()
                if ds.array.tobytes() != arr.tobytes() or ds.array.dtype != arr.dtype:
                    viol("create_mismatch", "from_array changed the data", "create_mismatch")
                invariants(ds, "create")
                n_mut[0] += 1
                continue
            if ds is None:
                continue
            nd = ds.ndim
            shape = ds.shape
            if k == "copy":
                before = snap(ds)
                try:
                    c = ds.copy()
                except Exception as e:
                    viol("op_raised", f"copy raised {e!r}", f"op_raised:copy:{type(e).__name__}")
                    continue
                d = snap_diff(before, snap(c))
                if d:
                    viol("copy_differs", f"copy differs from source in {d}", f"copy_differs:{','.join(d)}")
                if (np.shares_memory(c.array, ds.array) or np.shares_memory(c.origin, ds.origin)
                        or np.shares_memory(c.sampling, ds.sampling) or c.units is ds.units):
                    viol("copy_aliases_source", "copy shares array/origin/sampling/units storage "
                         "with its source", "copy_aliases_source")
                # mutate the copy's calibration in place: the source must not move
                try:
                    c.origin[0] += 1.0 if c.origin.dtype.kind == "f" else 1
                    c.sampling[-1] *= 2
                    c.units[0] = "changed"
                except Exception:
                    pass
                d = snap_diff(before, snap(ds))
                if d:
                    viol("source_modified", f"mutating a copy changed the source: {d}",
                         f"source_modified:copy:{','.join(d)}")
                invariants(c, "copy")
                if op["rebind"]:
                    keep(ds, tag[0])
                    ds = ds.copy()
            elif k in ("set_origin", "set_sampling"):
                vals = op["vals"][:nd] if nd <= 5 else op["vals"]
                vals = (vals * 2)[:nd]
                if k == "set_sampling":
                    vals = [abs(v) + 0.1 for v in vals]
                form = op["form"]
                arg = {"list": list(vals), "tuple": tuple(vals), "array": np.array(vals),
                       "scalar": vals[0], "int_list": [int(v) + 1 for v in vals]}[form]
                want = np.full(nd, vals[0]) if form == "scalar" else np.asarray(
                    arg, dtype=float)
                try:
                    setattr(ds, k[4:], arg)
                except Exception as e:
                    viol("op_raised", f"{k}({arg!r}) raised {e!r}", f"op_raised:{k}:{form}")
                    continue
                got = np.asarray(getattr(ds, k[4:]), dtype=float)
                if got.shape != (nd,) or not np.array_equal(got, want):
                    viol("setter_mismatch", f"{k}({arg!r}) -> {got.tolist()}", f"setter_mismatch:{k}")
                invariants(ds, k)
                n_mut[0] += 1
            elif k == "set_units":
                u = [f"m{op['tag']}_{q}" for q in range(nd)]
                arg = {"list": u, "tuple": tuple(u), "str": u[0]}[op["form"]]
                want = [u[0]] * nd if op["form"] == "str" else u
                try:
                    ds.units = arg
                except Exception as e:
                    viol("op_raised", f"set units raised {e!r}", f"op_raised:set_units:{op['form']}")
                    continue
                if list(ds.units) != want:
                    viol("setter_mismatch", f"units={ds.units} want {want}", "setter_mismatch:units")
                invariants(ds, k)
                n_mut[0] += 1
            elif k == "set_name":
                setattr(ds, op["which"], f"n{op['tag']}")
                if getattr(ds, op["which"]) != f"n{op['tag']}":
                    viol("setter_mismatch", op["which"], f"setter_mismatch:{op['which']}")
                invariants(ds, k)
            elif k == "set_array":
                nd2 = nd - 1 if (op["lower_ndim"] and nd > 1) else nd
                shp = tuple((op["shape"] * 2)[:nd2])
                arr = _mkarray(shp, op["dtype"], op["fill"])
                try:
                    ds.array = arr.copy()
                except Exception as e:
                    viol("op_raised", f"array setter shape {shp} raised {e!r}",
                         f"op_raised:set_array:{type(e).__name__}")
                    continue
                if ds.array.ndim != nd or ds.array.size != arr.size or ds.array.dtype != arr.dtype \
                        or ds.array.tobytes() != arr.tobytes():
                    viol("setter_mismatch", f"array setter: got shape {ds.array.shape} "
                         f"{ds.array.dtype}", "setter_mismatch:array")
                invariants(ds, k)
                n_mut[0] += 1
            elif k == "pad":
                w = [x % 3 for x in op["w"]]
                if op.get("wide") and nd <= 3 and int(np.prod(shape)) <= 4096:
                    w = [x % 12 for x in op["w"]]      # pad widths larger than the axis itself
                    bump(probes, "pad_width_larger_than_axis")
                if op["mode"] not in ("constant", "edge"):
                    bump(probes, "pad_mode_other")
                form = op["form"]
                if form == "int":
                    kw = {"pad_width": w[0]}
                elif form == "pair":
                    kw = {"pad_width": (w[0], w[1])}
                elif form == "pairs":
                    kw = {"pad_width": tuple((w[2 * q % 10], w[(2 * q + 1) % 10]) for q in range(nd))}
                else:
                    kw = {"output_shape": tuple(shape[q] + (w[q % 10] - 1) for q in range(nd))}
                if op["mode"] != "constant":
                    kw["mode"] = op["mode"]
                out = both_variants(ds, "pad", lambda t, ip: t.pad(modify_in_place=ip, **kw))
                if out:
                    n_mut[0] += 1
                    ds = out[0] if op["rebind"] == "copy" else out[1]
            elif k == "crop":
                def cw(ax, q):
                    ln = shape[ax]
                    start = op["w"][q % 10] % ln
                    room = ln - start - 1
                    sf = op["stop_form"][q % 5] % 3
                    if sf == 0:
                        stop = 0  # means 'to the end'
                    elif sf == 1:
                        stop = start + 1 + (op["w"][(q + 5) % 10] % (room + 1))
                        if stop == ln and op["w"][q % 10] % 2:
                            stop = 0
                    else:
                        back = op["w"][(q + 5) % 10] % (room + 1)
                        stop = -back if back > 0 else 0
                    return (start, stop)

                if op["axes"] == "none":
                    axes = None
                    cws = tuple(cw(q, q) for q in range(nd))
                elif op["axes"] == "int":
                    ax = op["ax"][0] % nd
                    axes = ax
                    cws = (cw(ax, 0),)
                else:
                    axs = sorted({x % nd for x in op["ax"][: 1 + op["ax"][4] % nd]})
                    axes = tuple(axs) if op["ax"][3] % 2 else list(axs)
                    cws = tuple(cw(ax, q) for q, ax in enumerate(axs))
                out = both_variants(ds, "crop", lambda t, ip: t.crop(cws, axes=axes, modify_in_place=ip))
                if out:
                    n_mut[0] += 1
                    ds = out[0] if op["rebind"] == "copy" else out[1]
            elif k == "bin":
                if op["axes"] == "none":
                    axs = list(range(nd))
                    axes = None
                elif op["axes"] == "int":
                    axs = [op["ax"][0] % nd]
                    axes = axs[0]
                else:
                    axs = sorted({x % nd for x in op["ax"][: 1 + op["ax"][4] % nd]})
                    axes = tuple(axs)
                facs = [1 + op["f"][q % 5] % min(3, shape[ax]) for q, ax in enumerate(axs)]
                if op["f"][4] % 4 == 0:
                    # the whole range of factors, up to the axis length itself (one bin per axis)
                    facs = [1 + op["f"][q % 5] % shape[ax] for q, ax in enumerate(axs)]
                    if any(f == shape[ax] and f > 1 for f, ax in zip(facs, axs)):
                        bump(probes, "bin_factor_equals_axis_length")
                if op["fform"] == "int":
                    facs = [facs[0] if all(facs[0] <= shape[ax] for ax in axs) else 1] * len(axs)
                    farg = facs[0]
                elif op["fform"] == "tuple":
                    farg = tuple(facs)
                else:
                    farg = [np.int64(f) for f in facs]
                out = both_variants(ds, "bin", lambda t, ip: t.bin(
                    farg, axes=axes, modify_in_place=ip, reducer=op["reducer"]))
                if out:
                    n_mut[0] += 1
                    ds = out[0] if op["rebind"] == "copy" else out[1]
            elif k == "resample":
                if op["axes"] == "none":
                    axs = list(range(nd))
                    axes = None
                elif op["axes"] == "int":
                    axs = [op["ax"][0] % nd]
                    axes = axs[0]
                else:
                    axs = sorted({x % nd for x in op["ax"][: 1 + op["ax"][4] % nd]})
                    axes = tuple(axs)
                if op["by"] == "out_shape":
                    kw = {"out_shape": tuple(1 + op["o"][q % 5] % 7 for q in range(len(axs)))}
                elif op["by"] == "factors":
                    kw = {"factors": tuple(op["fac"][q % 5] for q in range(len(axs)))}
                else:
                    kw = {"factors": op["fac"][0]}
                out = both_variants(ds, "resample", lambda t, ip: t.fourier_resample(
                    axes=axes, modify_in_place=ip, **kw))
                if out:
                    n_mut[0] += 1
                    ds = out[0] if op["rebind"] == "copy" else out[1]
            elif k == "getitem":
                index, has_list, used_ell = _resolve_index(op["index"], shape)
                if has_list:
                    bump(probes, "getitem_list")
                if used_ell:
                    bump(probes, "getitem_ellipsis")
                full = _expand(index, nd)
                if len(index if isinstance(index, tuple) else (index,)) < nd and not used_ell:
                    bump(probes, "getitem_partial")
                if any(isinstance(x, slice) and (x.step or 1) < 0 for x in full):
                    bump(probes, "getitem_negative_step")
                if any(isinstance(x, slice) and isinstance(x.step, np.integer) and x.step != 1
                       for x in full):
                    bump(probes, "getitem_numpy_int_slice_step")
                before = snap(ds)
                want_arr = ds.array[index]
                kept = [q for q, x in enumerate(full) if not isinstance(x, (int, np.integer))]
                steps = [(full[q].step if isinstance(full[q], slice) and full[q].step is not None
                          else 1) for q in kept]
                want_origin = np.asarray(ds.origin, dtype=float)[kept]
                want_sampling = np.asarray(ds.sampling, dtype=float)[kept] * np.asarray(steps, float)
                want_units = [ds.units[q] for q in kept]
                try:
                    r = ds[index]
                except Exception as e:
                    viol("op_raised", f"ds[{index!r}] on shape {shape} raised {e!r}",
                         f"op_raised:getitem:{type(e).__name__}")
                    continue
                d = snap_diff(before, snap(ds))
                if d:
                    viol("source_modified", f"indexing changed the source: {d}",
                         f"source_modified:getitem:{','.join(d)}")
                if r.array.shape != want_arr.shape or r.array.dtype != want_arr.dtype or \
                        r.array.tobytes() != np.ascontiguousarray(want_arr).tobytes():
                    viol("getitem_data", f"ds[{index!r}] on shape {shape}: data differs from "
                         f"numpy (got shape {r.array.shape}, want {want_arr.shape})", "getitem_data")
                    raise _Stop()
                invariants(r, "getitem")
                go, gs = np.asarray(r.origin, float), np.asarray(r.sampling, float)
                if not np.array_equal(go, want_origin) or list(r.units) != want_units:
                    viol("getitem_calibration", f"ds[{index!r}] on shape {shape}: origin/units "
                         f"{go.tolist()}/{r.units} want {want_origin.tolist()}/{want_units}",
                         "getitem_calibration:origin_units")
                if not np.array_equal(gs, want_sampling):
                    viol("getitem_calibration", f"ds[{index!r}] on shape {shape}: sampling "
                         f"{gs.tolist()} want {want_sampling.tolist()} (kept axes {kept}, steps "
                         f"{steps})", "getitem_calibration:sampling")
                if r.signal_units != ds.signal_units:
                    viol("getitem_calibration", "signal_units lost", "getitem_calibration:signal_units")
                if want_arr.ndim == nd:
                    wcls = type(ds).__name__
                else:
                    bump(probes, "ndim_changed_by_getitem")
                    wcls = _registry0.get(want_arr.ndim, Dataset).__name__
                if type(r).__name__ != wcls:
                    viol("getitem_class", f"ds[{index!r}]: {type(ds).__name__}(ndim {nd}) -> "
                         f"{type(r).__name__}(ndim {want_arr.ndim}), want {wcls}", "getitem_class")
                if op["rebind"]:
                    keep(ds, tag[0])
                    ds = r
                    n_mut[0] += 1
            elif k == "rejected":
                what = op["what"]
                before = snap(ds)
                x = op["x"]
                exc = None
                try:
                    def form(vals):
                        f = x[1] % 3
                        return list(vals) if f == 0 else tuple(vals) if f == 1 else np.asarray(vals)

                    if what == "origin_len":
                        ds.origin = form([0.0] * (nd + 1 + x[0] % 2))
                    elif what == "sampling_len":
                        ds.sampling = form([1.0] * (nd - 1) if nd > 1 else [1.0, 2.0])
                    elif what == "units_len":
                        ds.units = (["a"] * (nd + 1)) if x[1] % 2 else tuple(["a"] * (nd - 1 if nd > 1 else 2))
                    elif what == "origin_type":
                        ds.origin = ["a"] * nd if x[0] % 2 else {"a": 1}
                    elif what == "units_type":
                        ds.units = 5
                    elif what == "array_ndim":
                        ds.array = np.zeros((2,) * (nd + 1))
                    elif what == "pad_both":
                        ds.pad(pad_width=1, output_shape=tuple(shape), modify_in_place=bool(x[0] % 2))
                    elif what == "pad_none":
                        ds.pad(modify_in_place=bool(x[0] % 2))
                    elif what == "output_shape_len":
                        ds.pad(output_shape=tuple(shape) + (3,), modify_in_place=bool(x[0] % 2))
                    elif what == "crop_len":
                        ds.crop(((0, 0),) * (nd + 1), modify_in_place=bool(x[0] % 2))
                    elif what == "bin_len":
                        ds.bin((1,) * (nd + 1), modify_in_place=bool(x[0] % 2))
                    elif what == "bin_zero":
                        ds.bin(0, modify_in_place=bool(x[0] % 2))
                    elif what == "bin_float":
                        ds.bin((1.5,) * nd, modify_in_place=bool(x[0] % 2))
                    elif what == "bin_reducer":
                        ds.bin(1, reducer="median", modify_in_place=bool(x[0] % 2))
                    elif what == "resample_both":
                        ds.fourier_resample(out_shape=tuple(shape), factors=1.0,
                                            modify_in_place=bool(x[0] % 2))
                    elif what == "resample_len":
                        ds.fourier_resample(out_shape=tuple(shape) + (2,),
                                            modify_in_place=bool(x[0] % 2))
                    elif what == "resample_zero":
                        ds.fourier_resample(out_shape=(0,) * nd, modify_in_place=bool(x[0] % 2))
                    elif what == "index_oob":
                        ds[shape[0] + x[0] % 3]
                except Exception as e:
                    exc = e
                if exc is None:
                    viol("rejected_op_accepted", f"{what} did not raise", f"rejected_accepted:{what}")
                else:
                    bump(probes, "rejected_setter" if what.split("_")[0] in (
                        "origin", "sampling", "units", "array") else "rejected_shape_arg")
                d = snap_diff(before, snap(ds))
                if d:
                    viol("rejected_op_changed_state", f"{what} raised={exc!r} but changed {d}",
                         f"rejected_changed:{what}:{','.join(d)}")
                invariants(ds, "rejected")
    except _Stop:
        pass
    res["steps"] = len(kinds)
    res["sched"] = simhist.ngrams(kinds[1:], 3) + ["2:" + g for g in simhist.ngrams(kinds[1:], 2)]
    if n_mut[0] >= 3:
        res["nontrivial"] = plan_digest(plan["ops"])
    seen, uniq = set(), []
    for v_ in res["violations"]:
        if (v_["oracle"], v_["sig"]) not in seen:
            seen.add((v_["oracle"], v_["sig"]))
            uniq.append(v_)
    res["violations"] = uniq
    res["digest"] = plan_digest([plan["ops"], sorted((x["oracle"], x["sig"]) for x in uniq),
                                 res["steps"]])
    return res


def plan_size(plan):
    return len(plan["ops"])


def shrink(plan):
    head, tail = plan["ops"][:1], plan["ops"][1:]
    for p in simhist.shrink_history({"ops": tail}, "ops"):
        yield {**plan, "ops": copy.deepcopy(head) + p["ops"], "steered": False}
    c = plan["ops"][0]
    if c["cls"] == "Dataset" and len(c["shape"]) > 1:
        p = copy.deepcopy(plan)
        p["ops"][0]["shape"] = c["shape"][:-1]
        yield p
    if any(s > 2 for s in c["shape"]):
        p = copy.deepcopy(plan)
        p["ops"][0]["shape"] = [min(s, 2) for s in c["shape"]]
        yield p
    if c["dtype"] != "float64":
        p = copy.deepcopy(plan)
        p["ops"][0]["dtype"] = "float64"
        yield p
    if c["calib"]:
        p = copy.deepcopy(plan)
        p["ops"][0]["calib"] = False
        yield p
    for i, op in enumerate(plan["ops"]):
        if op["op"] == "getitem":
            ix = op["index"]
            for key, val in (("ellipsis", None), ("list_at", None), ("n", 1)):
                if ix[key] != val:
                    p = copy.deepcopy(plan)
                    p["ops"][i]["index"][key] = val
                    yield p
            for d, s in enumerate(ix["dims"]):
                if s["t"] != "all":
                    p = copy.deepcopy(plan)
                    p["ops"][i]["index"]["dims"][d] = {"t": "all"}
                    yield p
