"""C19 — the configuration store is a last-writer-wins nested map; refresh restores the accumulated
defaults; nested updates keep siblings; bad device requests are rejected and change nothing;
set() as a context manager restores the previous values.     Engine: E-simhist."""
from __future__ import annotations

import copy
from collections.abc import Mapping

from .. import simhist
from ..core import Rng, Violation, bump, new_result, plan_digest

ID = "C19"
LEVEL = "exploration"
ENGINE = "simhist"
TIERS = {
    "quick": {"runs": 60000, "budget_s": 60, "chunk": 500},
    "thorough": {"runs": 12000000, "budget_s": 1500, "chunk": 4000},
}
RULE = ("one evaluation = one seeded history (4-40 operations, swarm-selected sub-alphabet) of "
        "set(mapping)/set(**kw)/with set(...) blocks (nested)/update_defaults/refresh/get/device "
        "requests (also through update_defaults) over flat and dotted keys in '-'/'_' spellings (incl. "
        "a flat key with a doubled separator, mapping and keyword form in ONE call, falsy values), "
        "stepped against a dictionary "
        "reference model; the whole store and the defaults-derived refresh state are compared "
        "and the accumulated defaults list after every operation. Two arms: private config=/defaults= containers and the "
        "process-global store (restored after the run). distinct_nontrivial = distinct history "
        "digests with >= 3 state-changing operations.")
SCHED_MEASURE = "distinct operation-kind 3-grams (incl. arm) visited"
SIM_TIME_NOTE = "no clock in this engine (sequential history simulation); sim_time_s is 0"
ASSUMPTIONS = [
    "keys use a single separator style per segment (a_b_c / a-b-c): the canonical-name rule swaps "
    "ALL separators, so mixed-separator keys have no alternative spelling",
    "every key has a fixed role (mapping node or scalar leaf) across sets and defaults; user values "
    "and default values come from disjoint pools so 'most recently set' is never ambiguous",
    "argument dictionaries are built fresh for every call and never mutated by the harness",
    "device requests are issued alone; 'cpu', 'CPU', 'cpu:0', None and torch.device('cpu') are the "
    "accepted spellings of cpu in this sandbox (no CUDA/MPS), everything else must be rejected; "
    "strings that merely contain 'cpu' are not generated (the code normalises them to cpu by design)",
    "inside a with-block only gets, nested with-blocks and plain sets on other top-level keys occur",
    "no config files: QUANTEM_CONFIG points at a non-existent directory",
]
COMPONENTS_REAL = ["quantem.core.config (set/_assign/__exit__, get, update, merge, update_defaults, "
                   "refresh, canonical_name, check_key_val, validate_device, set_device)", "torch.device"]
COMPONENTS_STUB = ["none (private containers are the API's own config=/defaults= parameters)"]
EXPECTED_PROBES = ["alt_spelling_hit", "with_nested", "with_restored_insert", "with_restored_replace",
                   "defaults_overwrote_stale_default", "defaults_kept_user_value", "refresh_after_set",
                   "device_rejected", "device_accepted", "get_missing_raised", "get_default_used",
                   "kw_form", "mapping_value_replaced_subtree", "global_arm", "device_via_defaults_rejected",
                   "device_via_defaults_accepted", "falsy_value_set", "falsy_value_read_with_default",
                   "same_key_in_mapping_and_kwargs", "doubled_separator_key_in_mapping",
                   "sequence_value_set", "path_depth_ge_4", "get_override_with",
                   "defaults_with_non_dict_mappings"]

NODES = ["n1", "sec_a", "grp_b_c", "Sec_B2"]
LEAVES = ["x", "y", "opt_one", "lim_lo_hi", "verbose", "dd__k", "Mixed_Case", "k9"]
# "dd__k" / "dd--k": a FLAT key with a doubled separator.  Only the keyword form turns '__' into a
# level separator; in a mapping the key is one entry (items with such a segment always travel in
# the mapping part of a call).
ACCEPT_DEV = ["cpu", "CPU", "cpu:0", None, "torch:cpu"]
REJECT_DEV = ["gpu", "GPU", "cuda", "cuda:0", "cuda:7", "mps", "tpu", "", "cuda:abc", 0, 1, -1, 3.5,
              "torch:cuda", "torch:cuda:3", "xpu:0", "meta",
              # unavailable / unsupported devices as torch.device OBJECTS
              "torch:mps", "torch:meta", "torch:xpu", "torch:mps:0", "torch:cuda:0"]

_cfgmod = None
_pristine = None


_SETUP_DONE = []


RULE = RULE + ' Round 16: the SAME mapping object of an earlier update_defaults call is passed again.'


def setup():
    if _SETUP_DONE:
        return
    _SETUP_DONE.append(1)
    global _cfgmod, _pristine
    import os

    os.environ.setdefault("QUANTEM_CONFIG", "/nonexistent/qsim-config")
    from .. import core

    core.use_repo()
    import warnings

    warnings.filterwarnings("ignore")
    import quantem.core.config as cm

    _cfgmod = cm
    if cm.PATH.exists():
        raise core.HarnessError(f"config path {cm.PATH} exists; the refresh oracle needs it absent")
    _pristine = (copy.deepcopy(cm.config), copy.deepcopy(cm.defaults))


# ------------------------------------------------------------------------------------------
def _gen_path(r, top_ok=True):
    shape = r.weighted([(1, 3 if top_ok else 0), (2, 4), (3, 2), (4, 0.4), (5, 0.2)])
    segs = [r.pick(NODES) for _ in range(shape - 1)] + [r.pick(LEAVES)]
    return {"segs": segs, "dash": [r.chance(0.5) for _ in segs]}


def _gen_items(r, i, n_items=None):
    items = []
    for j in range(n_items or r.pick([1, 1, 2, 3])):
        if r.chance(0.2):
            # mapping value at a node path: replaces the subtree
            segs = [r.pick(NODES) for _ in range(r.pick([1, 2]))]
            leaves = r.subset(LEAVES, 0.5, 1)
            items.append({"path": {"segs": segs, "dash": [r.chance(0.5) for _ in segs]},
                          "map": [[lf, r.chance(0.5), 1000 + i * 20 + j * 5 + q]
                                  for q, lf in enumerate(leaves)]})
        else:
            # mostly unique ints; sometimes a falsy value (0, False, '', None, 0.0)
            val = 1000 + i * 20 + j if not r.chance(0.08) else ["F0", "FFalse", "Fempty", "FNone",
                                                                 "F0.0"][r.randrange(5)]
            sq = r.fork("seqval")
            if sq.chance(0.07):
                # sequences are values: replaced as a whole, never merged
                val = "L" + str(1000 + i * 20 + j) + sq.pick(["list", "tuple", "nested"])
            items.append({"path": _gen_path(r), "val": val})
    # one call never mentions the same (normalised) path twice, nor a path and its ancestor
    out, seen = [], []
    for it in items:
        p = tuple(it["path"]["segs"])
        if any(p[:len(q)] == q or q[:len(p)] == p for q in seen):
            continue
        seen.append(p)
        out.append(it)
    return out


def _gen_defaults_tree(r, i):
    tree = {}
    for j in range(r.pick([1, 2, 3])):
        p = _gen_path(r)
        d = tree
        ok = True
        for s, dash in zip(p["segs"][:-1], p["dash"]):
            k = s.replace("_", "-") if dash else s
            alt = s if dash else s.replace("_", "-")
            if alt in d and alt != k:
                k = alt  # one spelling per mapping
            d = d.setdefault(k, {})
        s = p["segs"][-1]
        k = s.replace("_", "-") if p["dash"][-1] else s
        alt = s if p["dash"][-1] else s.replace("_", "-")
        if alt in d and alt != k:
            k = alt
        d[k] = -(1000 + i * 20 + j)
    if r.chance(0.1):
        nd = r.pick(NODES)
        if not any(norm_key(k) == nd for k in tree):
            tree[nd] = {}
    return tree


def _gen_op(r, i, kinds, depth=0):
    k = r.pick(kinds)
    if k == "set":
        return {"op": "set", "form": r.pick(["map", "map", "kw", "both"]), "items": _gen_items(r, i),
                "dup": r.chance(0.3)}
    if k == "with":
        body = []
        if depth < 2:
            for q in range(r.pick([0, 1, 2, 3])):
                bk = r.pick(["get", "get", "with", "set_other"])
                if bk == "set_other":
                    body.append({"op": "set", "form": "map", "items": [
                        {"path": {"segs": ["other_" + r.pick(["p", "q"])], "dash": [r.chance(0.5)]},
                         "val": 1000 + i * 20 + 10 + q}]})
                elif bk == "with":
                    body.append(_gen_op(r.fork(("w", q)), i * 7 + q + 1, ["with"], depth + 1))
                else:
                    body.append(_gen_op(r.fork(("g", q)), i, ["get"], depth + 1))
        return {"op": "with", "form": r.pick(["map", "kw", "both"]), "items": _gen_items(r, i + 3),
                "dup": r.chance(0.3),
                "body": body, "raise_inside": r.chance(0.15)}
    if k == "defaults":
        return {"op": "defaults", "tree": _gen_defaults_tree(r, i),
                "wrap": r.fork("wrap").pick([None] * 5 + ["proxy", "userdict", "ordered", "mixed"]),
                # the SAME mapping object as an earlier update_defaults call is passed again (a plugin
                # re-registering its defaults dict): it is the most recent defaults layer again
                # (round 16, S-C19p: every call got a fresh dict)
                "again": r.fork("again").pick([None, None, None, 0, 1, 2])}
    if k == "refresh":
        return {"op": "refresh"}
    if k == "get":
        p = _gen_path(r) if r.chance(0.8) else {"segs": [r.pick(NODES)], "dash": [r.chance(0.5)]}
        return {"op": "get", "path": p, "default": r.chance(0.4),
                "override": r.fork("ov").pick([None] * 8 + ["O7", "O0", "OFalse", "Oempty", "ONone"])}
    if k == "device":
        x = r.pick(ACCEPT_DEV) if r.chance(0.35) else r.pick(REJECT_DEV)
        return {"op": "device", "x": x, "via": r.pick(["set", "set", "kw", "set_device", "defaults",
                                                       "defaults"]),
                "extra": r.pick([None, None, "before", "after"]), "tag": 5000 + i}
    raise ValueError(k)


def gen(rng: Rng, tier, i):
    kinds_all = ["set", "set", "with", "defaults", "refresh", "get", "get", "device"]
    kinds = rng.subset(sorted(set(kinds_all)), 0.7, 2)
    if "set" not in kinds and "defaults" not in kinds:
        kinds.append("set")
    weighted = [k for k in kinds_all if k in kinds]
    n = rng.pick([4, 8, 12, 20, 40])
    ops = [_gen_op(rng.fork(("op", j)), j, weighted) for j in range(n)]
    return {"arm": "global" if rng.chance(0.25) else "private", "ops": ops,
            "init_defaults": _gen_defaults_tree(rng.fork("init"), 900) if rng.chance(0.7) else {}}


# ------------------------------------------------------------------------------------------
# reference model (keys normalised to '_')
def norm_key(k):
    return k.replace("-", "_") if isinstance(k, str) else k


def norm(d):
    if isinstance(d, Mapping):      # any mapping (dict, MappingProxyType, UserDict, ...) by content
        return {norm_key(k): norm(v) for k, v in d.items()}
    return d


def plain(d):
    """Deep copy that turns every Mapping into a dict (MappingProxyType cannot be deep-copied)."""
    if isinstance(d, Mapping):
        return {k: plain(v) for k, v in d.items()}
    return copy.deepcopy(d)


def wrap(tree, kind, depth=0):
    """The same nested defaults with non-dict Mapping types at the nested levels (the API is typed
    Mapping: yaml loaders, OmegaConf, read-only views)."""
    import collections
    import types

    if not isinstance(tree, dict):
        return tree
    inner = {k: wrap(v, kind, depth + 1) for k, v in tree.items()}
    if depth == 0 or not kind:
        return inner
    k_ = kind if kind != "mixed" else ["proxy", "userdict", "ordered", "chain"][depth % 4]
    return {"proxy": types.MappingProxyType, "userdict": collections.UserDict,
            "ordered": collections.OrderedDict, "chain": collections.ChainMap}[k_](inner)


def foreign_container(d, path=""):
    """A nested container of the STORE that is a Mapping but not a dict (merging must produce dicts)."""
    if isinstance(d, Mapping):
        if not isinstance(d, dict):
            return f"{path or '.'}: {type(d).__name__}"
        for k, v in d.items():
            r = foreign_container(v, f"{path}.{k}")
            if r:
                return r
    return None


def m_lookup(M, path):
    cur = M
    for s in path:
        if not isinstance(cur, dict) or s not in cur:
            return _ABSENT
        cur = cur[s]
    return cur


_ABSENT = object()


def m_set(M, path, val):
    d = M
    for s in path[:-1]:
        if not isinstance(d.get(s), dict):
            d[s] = {}
        d = d[s]
    d[path[-1]] = copy.deepcopy(val)


def m_merge(dst, src):
    for k, v in src.items():
        if isinstance(v, dict):
            if not isinstance(dst.get(k), dict):
                dst[k] = {}
            m_merge(dst[k], v)
        else:
            dst[k] = v
    return dst


def m_merged(D):
    out = {}
    for d in D:
        m_merge(out, d)
    return out


def m_update_defaults(M, D, new, probes):
    before = m_merged(D)
    D.append(copy.deepcopy(new))

    def walk(tree, path):
        for k, v in tree.items():
            p = path + (k,)
            if isinstance(v, dict):
                cur = m_lookup(M, p)
                if not isinstance(cur, dict):
                    m_set(M, p, {})
                walk(v, p)
            else:
                cur = m_lookup(M, p)
                if cur is _ABSENT:
                    m_set(M, p, v)
                else:
                    old_def = m_lookup(before, p)
                    if old_def is not _ABSENT and old_def == cur:
                        m_set(M, p, v)
                        bump(probes, "defaults_overwrote_stale_default")
                    else:
                        bump(probes, "defaults_kept_user_value")

    walk(new, ())


def _spell(path):
    return [s.replace("_", "-") if d else s for s, d in zip(path["segs"], path["dash"])]


def _npath(path):
    return tuple(path["segs"])


def _first_diff(a, b, path=""):
    if isinstance(a, dict) and isinstance(b, dict):
        for k in sorted(set(a) | set(b), key=str):
            if k not in a:
                return f"{path}.{k}: missing in store (model has {b[k]!r})"
            if k not in b:
                return f"{path}.{k}: unexpected in store ({a[k]!r})"
            d = _first_diff(a[k], b[k], f"{path}.{k}")
            if d:
                return d
        return None
    if a != b:
        return f"{path}: store={a!r} model={b!r}"
    return None


def _dev(x):
    if isinstance(x, str) and x.startswith("torch:"):
        import torch

        return torch.device(x[6:])
    return x


class _Boom(Exception):
    pass


_FALSY = {"F0": 0, "FFalse": False, "Fempty": "", "FNone": None, "F0.0": 0.0}


def _value(code):
    """String-coded special values of the plan -> python values."""
    if code in _FALSY:
        return _FALSY[code]
    if code.startswith("L"):
        n = int("".join(ch for ch in code[1:] if ch.isdigit()))
        kind = code[1 + len(str(n)):]
        if kind == "list":
            return [n, n + 1, "s"]
        if kind == "tuple":
            return (n, "t")
        return [{"a": n}, [n, n]]
    raise ValueError(code)


def run(plan):
    cm = _cfgmod
    res = new_result()
    probes = res["probes"]
    is_global = plan["arm"] == "global"
    if is_global:
        bump(probes, "global_arm")
        cm.config.clear()
        cm.config.update(copy.deepcopy(_pristine[0]))
        cm.defaults[:] = copy.deepcopy(_pristine[1])
        cfg, dfl = cm.config, cm.defaults
        kw = {}
        rkw = {}
    else:
        cfg = {}
        dfl = [{"device": "cpu", "has_torch": True, "has_cupy": False}]
        kw = {"config": cfg}
        rkw = {"config": cfg, "defaults": dfl}
        cm.refresh(**rkw)
    try:
        if plan.get("init_defaults"):
            cm.update_defaults(copy.deepcopy(plan["init_defaults"]), **rkw)
        M = norm(plain(cfg))
        D = [norm(plain(d)) for d in dfl]
        kinds = []
        n_mut = [0]
        passed = []       # (mapping object, op) of earlier update_defaults calls
        dirty_since_refresh = [False]

        def viol(oracle, detail, sig):
            res["violations"].append(Violation(oracle, detail, sig))

        def resync():
            nonlocal M, D
            M = norm(plain(cfg))
            D = [norm(plain(d)) for d in dfl]

        def compare(tag, opkind):
            fc = foreign_container(cfg)
            if fc:
                viol("state_mismatch", f"after {tag}: the store holds a non-dict mapping at {fc}",
                     f"state_mismatch:{opkind}:foreign_container")
                resync()
                return False
            d = _first_diff(norm(cfg), M)
            if d:
                viol("state_mismatch", f"after {tag}: {d}", f"state_mismatch:{opkind}")
                resync()
                return False
            # the accumulated defaults (what the next refresh will restore)
            try:
                real_defaults = m_merged([norm(plain(x)) for x in dfl])
            except Exception as e:
                real_defaults = {"<unmergeable>": repr(e)}
            d = _first_diff(real_defaults, m_merged(D))
            if d:
                viol("defaults_mismatch", f"after {tag}: accumulated defaults differ: {d}",
                     f"defaults_mismatch:{opkind}")
                resync()
                return False
            return True

        def build_args(op):
            """(positional mapping or None, kwargs) for a set-like op + model assignments."""
            assigns = []
            mp, kws = {}, {}
            items = list(op["items"])
            both = op.get("form") == "both"
            if both and op.get("dup") and items and "map" not in items[0]:
                # the same key in the mapping AND the keyword arguments: keywords are applied last
                items = [dict(items[0], val=(items[0]["val"] + 7 if isinstance(items[0]["val"], int)
                                             else 777), _force="map")] + [dict(items[0], _force="kw")] \
                    + items[1:]
                bump(probes, "same_key_in_mapping_and_kwargs")
            for q_, it in enumerate(items):
                sp = _spell(it["path"])
                if "map" in it:
                    val = {(lf.replace("_", "-") if dash else lf): v for lf, dash, v in it["map"]}
                    mval = {lf: v for lf, dash, v in it["map"]}
                else:
                    val = mval = _value(it["val"]) if isinstance(it["val"], str) else it["val"]
                    if isinstance(it["val"], str):
                        bump(probes, "sequence_value_set" if it["val"].startswith("L") else
                             "falsy_value_set")
                    if len(sp) >= 4:
                        bump(probes, "path_depth_ge_4")
                as_kw = op.get("form") == "kw" or (both and (it.get("_force") == "kw" or (
                    it.get("_force") is None and q_ % 2 == 1)))
                if any("__" in x or "--" in x for x in sp):
                    as_kw = False
                    bump(probes, "doubled_separator_key_in_mapping")
                if as_kw:
                    kws["__".join(sp)] = val
                else:
                    mp[".".join(sp)] = val
                assigns.append((_npath(it["path"]), mval, "map" in it, as_kw))
            # real order of application: mapping entries first, then keyword arguments
            assigns = [a_[:3] for a_ in assigns if not a_[3]] + [a_[:3] for a_ in assigns if a_[3]]
            if op.get("form") == "kw":
                return (mp or None), kws, assigns
            return (mp if (mp or not kws) else None), kws, assigns

        def note_spelling(path_segs_spelled, npath):
            # did this spelling differ from the spelling stored first?
            cur = cfg
            for sp, s in zip(path_segs_spelled, npath):
                if isinstance(cur, dict):
                    if sp not in cur and any(norm_key(k) == s for k in cur):
                        bump(probes, "alt_spelling_hit")
                    nxt = next((cur[k] for k in cur if norm_key(k) == s), None)
                    cur = nxt
                else:
                    break

        def apply_set(op, tag):
            mp, kws, assigns = build_args(op)
            for it in op["items"]:
                note_spelling(_spell(it["path"]), _npath(it["path"]))
            if op.get("form") == "kw":
                bump(probes, "kw_form")
            try:
                obj = cm.set(mp, **kw, **kws) if mp is not None else cm.set(**kw, **kws)
            except Exception as e:
                viol("op_raised", f"{tag}: set({mp!r}, **{kws!r}) raised {e!r}",
                     f"op_raised:set:{type(e).__name__}")
                resync()
                return None, []
            undo = []
            for path, mval, is_map in assigns:
                prev = m_lookup(M, path)
                # what the context manager must restore: previous value, or remove the top-most
                # key this assignment created
                created = None
                for q in range(1, len(path) + 1):
                    if m_lookup(M, path[:q]) is _ABSENT:
                        created = path[:q]
                        break
                undo.append((path, copy.deepcopy(prev) if prev is not _ABSENT else _ABSENT, created))
                if is_map and isinstance(prev, dict):
                    bump(probes, "mapping_value_replaced_subtree")
                m_set(M, path, mval)
            n_mut[0] += 1
            dirty_since_refresh[0] = True
            return obj, undo

        def step(op, depth=0):
            k = op["op"]
            kinds.append(k)
            tag = f"op#{len(kinds)}:{k}"
            if k == "set":
                apply_set(op, tag)
                compare(tag, "set")
            elif k == "with":
                if not op["items"]:
                    return
                obj, undo = apply_set(op, tag + ":enter")
                if obj is None:
                    return
                compare(tag + ":enter", "with_enter")
                if depth:
                    bump(probes, "with_nested")
                try:
                    if not hasattr(obj, "__exit__"):
                        raise TypeError("set object has no __exit__")
                    with obj:
                        for b in op["body"]:
                            step(b, depth + 1)
                        if op.get("raise_inside"):
                            raise _Boom()
                except _Boom:
                    pass
                except TypeError as e:
                    viol("with_unsupported", f"{tag}: using set() as a context manager raised {e!r}",
                         "with_unsupported")
                    resync()
                    return
                for path, prev, created in reversed(undo):
                    if created is not None:
                        d = M
                        ok = True
                        for s in created[:-1]:
                            if not isinstance(d.get(s), dict):
                                ok = False
                                break
                            d = d[s]
                        if ok:
                            d.pop(created[-1], None)
                        bump(probes, "with_restored_insert")
                    else:
                        m_set(M, path, prev)
                        bump(probes, "with_restored_replace")
                compare(tag + ":exit", "with_exit")
            elif k == "defaults":
                tree = wrap(copy.deepcopy(op["tree"]), op.get("wrap"))
                if op.get("again") is not None and passed:
                    tree, op = passed[op["again"] % len(passed)]
                    bump(probes, "same_defaults_object_passed_again")
                else:
                    passed.append((tree, op))
                if op.get("wrap"):
                    bump(probes, "defaults_with_non_dict_mappings")
                try:
                    cm.update_defaults(tree, **rkw)
                except Exception as e:
                    viol("op_raised", f"{tag}: update_defaults({op['tree']!r}) raised {e!r}",
                         f"op_raised:defaults:{type(e).__name__}")
                    resync()
                    return
                m_update_defaults(M, D, norm(op["tree"]), probes)
                n_mut[0] += 1
                compare(tag, "defaults")
            elif k == "refresh":
                try:
                    cm.refresh(**rkw)
                except Exception as e:
                    viol("op_raised", f"{tag}: refresh raised {e!r}",
                         f"op_raised:refresh:{type(e).__name__}")
                    resync()
                    return
                if dirty_since_refresh[0]:
                    bump(probes, "refresh_after_set")
                dirty_since_refresh[0] = False
                M.clear()
                M.update(m_merged(D))
                n_mut[0] += 1
                compare(tag, "refresh")
            elif k == "get":
                sp = ".".join(_spell(op["path"]))
                want = m_lookup(M, _npath(op["path"]))
                note_spelling(_spell(op["path"]), _npath(op["path"]))
                ov = op.get("override")
                if ov is not None:
                    # override_with: passed straight back unless it is None
                    oval = {"O7": 7, "O0": 0, "OFalse": False, "Oempty": "", "ONone": None}[ov]
                    bump(probes, "get_override_with")
                    try:
                        got = cm.get(sp, "DFLT", override_with=oval, **kw) if op["default"] else \
                            cm.get(sp, override_with=oval, **kw)
                    except (KeyError, TypeError, IndexError) as e:
                        if oval is not None or want is not _ABSENT or op["default"]:
                            viol("get_mismatch", f"{tag}: get({sp!r}, override_with={oval!r}) raised "
                                 f"{e!r}", "get_mismatch:override_raised")
                        return
                    if oval is not None:
                        if got is not oval:
                            viol("get_mismatch", f"{tag}: get({sp!r}, override_with={oval!r}) returned "
                                 f"{got!r}", "get_mismatch:override")
                        return
                    # override_with=None: an ordinary read (falls through to the checks below)
                    op = dict(op, _got=got)
                try:
                    if "_got" in op:
                        got = op["_got"]
                    elif op["default"]:
                        got = cm.get(sp, "DFLT", **kw)
                    else:
                        got = cm.get(sp, **kw)
                except (KeyError, TypeError, IndexError) as e:
                    if want is not _ABSENT or op["default"]:
                        viol("get_mismatch", f"{tag}: get({sp!r}) raised {e!r}, model has "
                             f"{None if want is _ABSENT else want!r}", "get_mismatch:raised")
                    else:
                        bump(probes, "get_missing_raised")
                    return
                if want is not _ABSENT and op["default"] and not want and not isinstance(want, dict):
                    bump(probes, "falsy_value_read_with_default")
                if want is _ABSENT:
                    if op["default"] and got == "DFLT":
                        bump(probes, "get_default_used")
                    else:
                        viol("get_mismatch", f"{tag}: get({sp!r}) returned {got!r} for a key that "
                             "was never set", "get_mismatch:absent")
                elif norm(got) != want or type(got) is not type(want):
                    viol("get_mismatch", f"{tag}: get({sp!r}) = {got!r}, most recently set value "
                         f"is {want!r}", "get_mismatch:value")
            elif k == "device":
                x = op["x"]
                before = m_lookup(M, ("device",))
                accept = x in ACCEPT_DEV
                via = op["via"] if is_global or op["via"] != "set_device" else "set"
                try:
                    if via == "defaults":
                        tree = {"device": _dev(x)}
                        if op.get("extra") == "before":
                            tree = {"other_d": -op["tag"], "device": _dev(x)}
                        elif op.get("extra") == "after":
                            tree = {"device": _dev(x), "other_d": -op["tag"]}
                        cm.update_defaults(tree, **rkw)
                    elif via == "set_device":
                        cm.set_device(_dev(x))
                    elif via == "kw":
                        cm.set(**kw, device=_dev(x))
                    else:
                        cm.set({"device": _dev(x)}, **kw)
                    raised = None
                except Exception as e:
                    raised = e
                now = cfg.get("device", _ABSENT)
                if accept:
                    if raised is not None:
                        viol("device_accept", f"{tag}: device request {x!r} raised {raised!r}",
                             "device_accept:raised")
                    elif now != "cpu":
                        viol("device_accept", f"{tag}: device request {x!r} stored {now!r}",
                             "device_accept:value")
                    else:
                        bump(probes, "device_accepted")
                    if via == "defaults":
                        mt = {"device": "cpu"}
                        if op.get("extra") == "before":
                            mt = {"other_d": -op["tag"], "device": "cpu"}
                        elif op.get("extra") == "after":
                            mt = {"device": "cpu", "other_d": -op["tag"]}
                        m_update_defaults(M, D, mt, probes)
                        bump(probes, "device_via_defaults_accepted")
                    else:
                        m_set(M, ("device",), "cpu")
                    n_mut[0] += 1
                else:
                    if raised is None:
                        viol("device_not_rejected", f"{tag}: device request {x!r} was accepted "
                             f"(stored {now!r}) although no such device exists here",
                             f"device_not_rejected:{type(x).__name__}")
                        resync()
                    else:
                        bump(probes, "device_rejected")
                        if via == "defaults":
                            bump(probes, "device_via_defaults_rejected")
                        if (now if now is not _ABSENT else None) != (
                                before if before is not _ABSENT else None):
                            viol("device_changed_by_rejected_request",
                                 f"{tag}: rejected request {x!r} changed device {before!r} -> {now!r}",
                                 "device_changed_by_rejected_request")
                            resync()
                compare(tag, "device")

        for op in plan["ops"]:
            step(op)
        res["steps"] = len(kinds)
        arm = plan["arm"][0]
        res["sched"] = [arm + ":" + g for g in simhist.ngrams(kinds, 3)]
        if n_mut[0] >= 3:
            res["nontrivial"] = plan_digest(plan["ops"])
    finally:
        if is_global:
            cm.config.clear()
            cm.config.update(copy.deepcopy(_pristine[0]))
            cm.defaults[:] = copy.deepcopy(_pristine[1])
    seen, uniq = set(), []
    for v in res["violations"]:
        if (v["oracle"], v["sig"]) not in seen:
            seen.add((v["oracle"], v["sig"]))
            uniq.append(v)
    res["violations"] = uniq
    res["digest"] = plan_digest([plan["ops"], plan["arm"], sorted(
        (v["oracle"], v["sig"]) for v in uniq), res["steps"]])
    return res


def plan_size(plan):
    def n(ops):
        return sum(1 + n(o.get("body", [])) for o in ops)

    return n(plan["ops"])


def shrink(plan):
    yield from simhist.shrink_history(plan, "ops")
    if plan.get("init_defaults"):
        p = copy.deepcopy(plan)
        p["init_defaults"] = {}
        yield p
    if plan["arm"] == "global":
        p = copy.deepcopy(plan)
        p["arm"] = "private"
        yield p
    for i, op in enumerate(plan["ops"]):
        if op["op"] in ("set", "with") and len(op["items"]) > 1:
            for j in range(len(op["items"])):
                p = copy.deepcopy(plan)
                p["ops"][i]["items"] = op["items"][:j] + op["items"][j + 1:]
                yield p
        if op["op"] == "with" and op.get("raise_inside"):
            p = copy.deepcopy(plan)
            p["ops"][i]["raise_inside"] = False
            yield p
