"""C01 — serializer round-trip fidelity (save -> restart -> load -> compare -> second generation),
zip vs dir, every compression level, str/Path, both modes.   Engine: E-simio + E-graphs."""
from __future__ import annotations

import copy
import gc
import hashlib
import json
import os
import shutil

import numpy as np

from .. import graphs, serio, simstore
from ..core import HarnessError, Rng, Violation, bump, new_result, plan_digest

ID = "C01"
LEVEL = "exploration"
ENGINE = "simio"
TIERS = {
    "quick": {"runs": 3000, "budget_s": 70, "chunk": 8},
    "thorough": {"runs": 60000, "budget_s": 1500, "chunk": 16},
}
RULE = ("one evaluation = one seeded object graph (swarm: random subset of value kinds, size regime "
        "tiny/wide/deep/one-big-array) saved to BOTH stores under a seeded I/O schedule (completion "
        "order, zarr knobs, listing/walk permutations), reloaded after a restart (expected value "
        "rebuilt from the JSON spec, freed memory poisoned), compared structurally, re-saved and "
        "reloaded (fixed point), and zip vs dir compared. Graphs include real quantem Vector/Dataset "
        "objects, nn.Module hybrids, classes nested in classes, SAME-NAMED classes from a second "
        "module, containers of >= 11 items, 0-d arrays/tensors inside numeric sequences, "
        "dot/tilde-prefixed names. distinct_nontrivial = number of distinct "
        "(graph spec, configuration) digests with >= 2 graph nodes.")
SCHED_MEASURE = "distinct executor completion-order signatures over save+load"
ASSUMPTIONS = [
    "attribute names / dict keys from a tricky-but-legal alphabet without '/', '' and the "
    "serializer's reserved names; ints inside all-numeric sequences within int64 and <= 2^53 when "
    "mixed with floats; set members are hashable python scalars/strings; dict keys are strings",
    "NumPy scalars and all-numeric sequences are compared by numeric value; generators and loggers "
    "only by kind; dict key order and attribute order are not compared",
    "non-native byte order, object dtype and AutoSerialize members of sets are not generated",
]
COMPONENTS_REAL = ["quantem.core.io.serialize", "zarr 3.4", "numcodecs blosc", "zipfile",
                   "torch.save/load", "dill", "real file I/O in tmpfs sandbox"]
COMPONENTS_STUB = ["zarr sync()/loop thread/thread pool -> SimLoop", "LocalStore -> SimStore",
                   "os.walk / list_dir order (seeded)", "tempfile location (sandbox)"]
EXPECTED_PROBES = ["multi_chunk_array_written", "zero_dim_array", "empty_array_original_shape",
                   "ndarray_fast_path", "set_roundtrip", "path_in_container", "dict_in_sequence",
                   "overwrite_existing_zip", "overwrite_existing_dir", "auto_store_suffix_appended",
                   "other_process_restart", "listing_order_nonidentity", "completion_order_nonfifo",
                   "kind_tensor", "kind_module", "kind_obj_in_container", "kind_npscalar",
                   "kind_hybrid_module", "dot_prefixed_name", "kind_qvector", "kind_qdataset",
                   "one_object_under_two_names", "unusual_path_shape", "other_interpreter_restart",
                   "tensor_view_big_leaf", "tensor_view_big_nonleaf", "tensor_transposed",
                   "same_object_saved_twice", "compression_level_numpy_int", "bulk_str", "bulk_dict",
                   "bulk_intlist", "bulk_attrs"]


RULE = RULE + ' Rounds 14-15: with one live object saved to both stores, the object is changed IN PLACE between the two saves (tensors through .data, arrays through +=; the autograd version counter does not move) and the second load is compared with spec + the same mutation.'


def setup():
    serio.setup()


def gen(rng: Rng, tier, i):
    g, opts = graphs.gen_graph(rng.fork("graph"), tier)
    x = rng.fork("extremes")
    if g["cls"] not in ("AttrsLike", "Hybrid") and x.chance(0.08):
        used = {n for n, _ in g["attrs"]}
        what, n = x.pick([("str", 4097), ("str", 70000), ("strlist", 300), ("mixedlist", 257),
                          ("intlist", 70000), ("floatlist_integral", 1000), ("dict", 1100), ("nest", 12),
                          ("tuplelist", 120), ("attrs", 300), ("mixedlist_late", 1003),
                          ("mixedlist_late", 1003)])
        if what == "attrs":       # an object with hundreds of attributes
            for q in range(n):
                g["attrs"].append([f"m{q}", {"k": "int", "v": q} if q % 3 else {"k": "str", "v": f"v{q}"}])
        else:
            g["attrs"].insert(x.randrange(len(g["attrs"]) + 1),
                              [graphs.gen_name(x, used), {"k": "bulk", "what": what, "n": n,
                                                           "ch": x.pick(["x", "é", "名"])}])
    # the SAME python object reachable under two root attribute names
    alias = None
    roots = [n for n, s_ in g["attrs"] if s_["k"] in ("obj", "nd", "list", "dict", "tensor", "set", "tuple")]
    if roots and g["cls"] not in ("AttrsLike", "Hybrid") and x.chance(0.12):
        alias = [x.pick(roots), graphs.gen_name(x, {n for n, _ in g["attrs"]})]
    cfgs = []
    for store in ("zip", "dir"):
        r = rng.fork(("cfg", store))
        if store == "zip":
            t = r.pick([{"name": "o.zip", "store": "zip"}, {"name": "o.zip", "store": "auto"},
                        {"name": "o", "store": "zip"}])
            shp = r.fork("shape")
            if shp.chance(0.2):      # path shapes: dots, upper-case suffix, unicode, long
                t = shp.pick([
                    {"name": "dot.in.name", "store": "zip"}, {"name": "o2.ZIP", "store": "zip"},
                    {"name": "sub.d/o.zip", "store": "auto"}, {"name": "sub.d/o", "store": "zip"},
                    {"name": "ü名 o.zip", "store": "auto"}, {"name": "b.zip.bak", "store": "zip"},
                    {"name": "L" * 120 + ".zip", "store": "zip"}])
        else:
            t = r.pick([{"name": "o", "store": "dir"}, {"name": "o", "store": "auto"}])
            shp = r.fork("shape")
            if shp.chance(0.2):
                t = shp.pick([
                    {"name": "sub.d/p", "store": "dir"}, {"name": "sub.d/p", "store": "auto"},
                    {"name": "ü名 dir", "store": "dir"}, {"name": "trail/", "store": "dir"},
                    {"name": "D" * 120, "store": "auto"}])
        mode = r.pick(["w", "o", "o"])
        pre = "absent" if mode == "w" else r.pick(["absent", "object", "file", "staledir"])
        if t["name"].endswith("/") and pre == "file":
            pre = "staledir"     # 'name/' over a regular file 'name' is not a usable path for the OS
        cfgs.append({**t, "mode": mode, "pre": pre, "level": r.pick([None] + list(range(10))),
                     "path_kind": r.pick(["str", "Path", "str", "Path", "rel", "relPath"])})
    return {"graph": g, "cfgs": cfgs, "env": serio.gen_env(rng.fork("env")), "alias": alias,
            # the SAME python object saved to both stores (save must not change its argument), and the
            # compression level given as a NumPy integer
            "reuse_object": x.chance(0.25), "level_as_numpy": x.chance(0.15),
            # the live object is CHANGED IN PLACE between its two saves (a checkpoint loop): the second
            # save has to store what the object holds then (round 15, S-C01o)
            "mutate_between": x.fork("mut").chance(0.6),
            "other_process": rng.chance(0.08) and alias is None,
            # load in a FRESH interpreter with another string-hash salt (a real restart: nothing the
            # saving process computed - hash orders, caches, interned objects - survives)
            "other_interpreter": rng.fork("interp").pick([None] * 60 + [1, 424242])}


def poison_freed_memory():
    """Fill numpy's small-block cache with a poison pattern so that an uninitialised
    np.empty(()) cannot accidentally contain the right value (numpy recycles freed small data
    buffers by size)."""
    junk = []
    for size in (1, 2, 4, 8, 16):
        for _ in range(12):
            a = np.empty(size, dtype="u1")
            a.fill(0xA5)
            junk.append(a)
    del junk


def _final(cfg, name=None):
    n = name or cfg["name"]
    if cfg["store"] == "zip" and not n.endswith(".zip"):
        n += ".zip"
    return n


def _probe_graph(spec, probes):
    for path, s in graphs.walk(spec):
        k = s["k"]
        if k == "nd":
            if s["shape"] == []:
                bump(probes, "zero_dim_array")
            elif 0 in s["shape"]:
                bump(probes, "empty_array_original_shape")
        elif k in ("list", "tuple"):
            its = s["items"]
            if its and all(x["k"] in ("int", "float", "bool", "npscalar") for x in its):
                bump(probes, "ndarray_fast_path")
            if any(x["k"] == "dict" for x in its):
                bump(probes, "dict_in_sequence")
            if any(x["k"] == "path" for x in its):
                bump(probes, "path_in_container")
            if any(x["k"] == "obj" for x in its):
                bump(probes, "kind_obj_in_container")
        elif k == "dict":
            if any(x["k"] == "path" for _, x in s["items"]):
                bump(probes, "path_in_container")
            if any(x["k"] == "obj" for _, x in s["items"]):
                bump(probes, "kind_obj_in_container")
        elif k == "set":
            bump(probes, "set_roundtrip")
        elif k in ("tensor", "module", "npscalar"):
            bump(probes, f"kind_{k}")
            if k == "tensor" and s.get("storage", "own") != "own":
                bump(probes, "tensor_" + s["storage"])
        elif k in ("qvector", "qdataset"):
            bump(probes, f"kind_{k}")
        elif k == "obj" and s.get("cls") == "Hybrid":
            bump(probes, "kind_hybrid_module")
        if k == "obj" and any(str(n).startswith(".") for n, _ in s["attrs"]):
            bump(probes, "dot_prefixed_name")


def _other_process_load(path, spec, env):
    """Load + compare in a process forked BEFORE the object graph existed (the caller forks us
    early); communicates the diff as JSON over a pipe."""
    raise NotImplementedError


def _build(plan):
    o = graphs.build(plan["graph"])
    al = plan.get("alias")
    if al and al[0] in vars(o) and al[1] not in vars(o):
        o.__dict__[al[1]] = o.__dict__[al[0]]      # one object, two names
    return o


def _mutate(root):
    """In-place change of every numeric array / tensor reachable from `root` (deterministic walk:
    attribute and dict insertion order), done the way that is hardest to notice: tensors through
    `.data` (the autograd version counter does not move), arrays through `+=` on the same buffer.
    Applied identically to the live object and to the expectation rebuilt from the spec."""
    import torch

    seen = set()
    n = [0]

    def rec(v, depth=0):
        if id(v) in seen or depth > 12:
            return
        if isinstance(v, torch.nn.Module):
            seen.add(id(v))
            for t in list(v.parameters()) + list(v.buffers()):
                rec(t, depth + 1)
            for a in list(vars(v).values()):
                if not isinstance(a, (dict,)) or a is not getattr(v, "_parameters", None):
                    pass
            return
        if isinstance(v, torch.Tensor):
            seen.add(id(v))
            if v.numel() and v.dtype != torch.bool and not v.is_sparse:
                try:
                    with torch.no_grad():
                        v.data.add_(1)
                    n[0] += 1
                except Exception:
                    pass
            return
        if isinstance(v, np.ndarray):
            seen.add(id(v))
            if v.size and v.dtype.kind in "iufc" and v.flags.writeable:
                np.add(v, 1, out=v, casting="unsafe")
                n[0] += 1
            return
        if isinstance(v, (list, tuple)):
            seen.add(id(v))
            for a in v:
                rec(a, depth + 1)
            return
        if isinstance(v, dict):
            seen.add(id(v))
            for a in list(v.values()):
                rec(a, depth + 1)
            return
        d = getattr(v, "__dict__", None)
        if d is not None and type(v).__module__.startswith(("qsim_models", "quantem")):
            seen.add(id(v))
            for a in list(d.values()):
                rec(a, depth + 1)

    rec(root)
    return n[0]


def run(plan):
    res = new_result()
    spec = plan["graph"]
    _probe_graph(spec, res["probes"])
    if plan.get("alias"):
        bump(res["probes"], "one_object_under_two_names")
    for _, s_ in graphs.walk(spec):
        if s_.get("k") == "bulk":
            bump(res["probes"], "bulk_" + s_["what"])
    if len(spec["attrs"]) >= 200:
        bump(res["probes"], "bulk_attrs")
    helper = None
    if plan.get("other_process"):
        helper = _ForkedLoader(plan["env"])  # forked now: has never seen the object graph
    loaded = {}
    shared_obj = [None]
    n_mut = [0]
    try:
        with serio.SerEnv(plan["env"], keep_log=False) as E:
            n_sig = 0
            for cfg in plan["cfgs"]:
                kind = "zip" if _final(cfg).endswith(".zip") else "dir"
                tag = f"{kind}:{cfg['store']}:lvl={cfg['level']}:{cfg['mode']}:{cfg['pre']}"
                tgt = os.path.join(E.work, _final(cfg)).rstrip("/")
                os.makedirs(os.path.dirname(tgt), exist_ok=True)
                if cfg["name"] not in ("o", "o.zip"):
                    bump(res["probes"], "unusual_path_shape")
                _setup_pre(E, cfg, tgt, res["probes"])
                if cfg["store"] == "zip" and not cfg["name"].endswith(".zip"):
                    bump(res["probes"], "auto_store_suffix_appended")
                if plan.get("reuse_object"):
                    if shared_obj[0] is None:
                        shared_obj[0] = _build(plan)
                    else:
                        bump(res["probes"], "same_object_saved_twice")
                        if plan.get("mutate_between"):
                            if _mutate(shared_obj[0]):
                                bump(res["probes"], "live_object_changed_in_place_between_saves")
                            n_mut[0] += 1
                    obj = shared_obj[0]
                else:
                    obj = _build(plan)
                lvl = cfg["level"]
                if plan.get("level_as_numpy") and lvl is not None:
                    lvl = np.int64(lvl)
                    bump(res["probes"], "compression_level_numpy_int")
                _, exc, sc = E.save(obj, E.path(cfg["name"], cfg["path_kind"]), mode=cfg["mode"],
                                    store=cfg["store"], compression_level=lvl)
                del obj
                if _multi_chunk(E):
                    bump(res["probes"], "multi_chunk_array_written")
                if exc is not None:
                    res["violations"].append(Violation(
                        "save_raised", f"{tag}: save() raised {exc!r}",
                        f"save_raised:{type(exc).__name__}:{_exc_class(exc)}"))
                    continue
                # ---- restart: nothing of the saved object is alive; expectation from the spec
                poison_freed_memory()
                if helper is not None and cfg is plan["cfgs"][0]:
                    d_other = helper.load_and_diff(tgt, spec)
                    bump(res["probes"], "other_process_restart")
                    if d_other:
                        res["violations"].append(Violation(
                            "roundtrip_mismatch_other_process",
                            f"{tag}: {d_other[:3]}", "roundtrip_mismatch:" + d_other[0][0]))
                if plan.get("other_interpreter") and cfg is plan["cfgs"][0]:
                    bump(res["probes"], "other_interpreter_restart")
                    d_oi = _other_interpreter_diff(plan, tgt)
                    if d_oi:
                        res["violations"].append(Violation(
                            "roundtrip_mismatch_other_interpreter",
                            f"{tag}: loaded in a fresh interpreter (PYTHONHASHSEED="
                            f"{plan['other_interpreter']}): {d_oi[:3]}",
                            "roundtrip_mismatch_other_interpreter:" + str(d_oi[0][0])))
                got, exc, _ = E.load(tgt)
                if exc is not None:
                    res["violations"].append(Violation(
                        "load_raised", f"{tag}: load() raised {exc!r}",
                        f"load_raised:{type(exc).__name__}:{_exc_class(exc)}"))
                    continue
                exp = _build(plan)
                for _ in range(n_mut[0]):
                    _mutate(exp)
                d = graphs.equal(exp, got)
                if d:
                    res["violations"].append(Violation(
                        "roundtrip_mismatch", f"{tag}: {[tuple(x) for x in d[:4]]}",
                        "roundtrip_mismatch:" + graphs.diff_sig(d)))
                loaded[kind] = got
                # ---- second generation (fixed point)
                name2 = "g2.zip" if kind == "zip" else "g2"
                _, exc, _ = E.save(got, E.path(name2), mode="w", store=kind,
                                   compression_level=cfg["level"])
                if exc is not None:
                    res["violations"].append(Violation(
                        "resave_raised", f"{tag}: saving the loaded object raised {exc!r}",
                        f"resave_raised:{type(exc).__name__}:{_exc_class(exc)}"))
                    continue
                poison_freed_memory()
                got2, exc, _ = E.load(E.path(name2))
                if exc is not None:
                    res["violations"].append(Violation(
                        "reload_raised", f"{tag}: loading the second generation raised {exc!r}",
                        f"reload_raised:{type(exc).__name__}:{_exc_class(exc)}"))
                    continue
                d2 = graphs.equal(exp, got2)
                if d2 and not d:
                    res["violations"].append(Violation(
                        "second_generation_mismatch", f"{tag}: {[tuple(x) for x in d2[:4]]}",
                        "second_generation_mismatch:" + graphs.diff_sig(d2)))
                del got2
            if "zip" in loaded and "dir" in loaded and not n_mut[0]:
                d3 = graphs.equal(loaded["zip"], loaded["dir"])
                if d3:
                    res["violations"].append(Violation(
                        "stores_disagree", f"zip vs dir: {[tuple(x) for x in d3[:4]]}",
                        "stores_disagree:" + graphs.diff_sig(d3)))
            res["sched"].append(hashlib.blake2b(repr(E.sim.completion_sig).encode(),
                                                digest_size=6).hexdigest())
            E.finish(res)
            res["digest"] = E.log.digest()
    finally:
        if helper is not None:
            helper.close()
    if graphs.count_nodes(spec) >= 2:
        res["nontrivial"] = plan_digest({k: plan[k] for k in ("graph", "cfgs")})
    # de-duplicate by (oracle, sig)
    seen, uniq = set(), []
    for v in res["violations"]:
        if (v["oracle"], v["sig"]) not in seen:
            seen.add((v["oracle"], v["sig"]))
            uniq.append(v)
    res["violations"] = uniq
    res["digest"] += ":" + hashlib.blake2b(
        repr(sorted((v["oracle"], v["sig"]) for v in uniq)).encode(), digest_size=4).hexdigest()
    return res


def child_load_and_diff(req):
    """Executed in a fresh interpreter (python -m qsim.c01child)."""
    plan = req["plan"]
    env2 = dict(plan["env"], sched_seed=plan["env"].get("sched_seed", 0) + 2)
    with serio.SerEnv(env2) as E:
        got, exc, _ = E.load_copy(req["path"])
        if exc is not None:
            return [["load_raised", "$", repr(exc)]]
        return [list(x) for x in graphs.equal(_build(plan), got)]


def _other_interpreter_diff(plan, path):
    import subprocess
    import sys

    from .. import core

    env = dict(os.environ, PYTHONHASHSEED=str(plan["other_interpreter"]), VERIF_REPO=core.REPO,
               PYTHONPATH=core.VERIF_DIR + os.pathsep + os.environ.get("PYTHONPATH", ""))
    req = {"plan": {k: v for k, v in plan.items() if k != "run_seed"}, "path": path}
    out = subprocess.run([sys.executable, "-m", "qsim.c01child"], input=json.dumps(req), text=True,
                         capture_output=True, env=env, cwd=core.VERIF_DIR, timeout=600)
    lines = [ln for ln in out.stdout.splitlines() if ln.startswith("RESULT ")]
    if out.returncode != 0 or not lines:
        raise HarnessError(f"other-interpreter load failed (rc {out.returncode}): {out.stderr[-400:]}")
    return json.loads(lines[-1][7:])


def _exc_class(exc):
    msg = str(exc)
    for key in ("Unknown group structure", "not JSON serializable", "Missing expected key",
                "Unknown subgroup structure", "already exists", "Invalid", "Unsupported",
                "cannot", "could not", "Missing"):
        if key in msg:
            return key.replace(" ", "_")
    return msg.split(":")[0][:40].replace(" ", "_")


def _multi_chunk(E):
    ch = E.io.chunks
    r = any(v > 1 for v in ch.values())
    ch.clear()
    return r


def _setup_pre(E, cfg, tgt, probes):
    pre = cfg["pre"]
    if pre == "absent":
        return
    if pre == "object":
        other = graphs.build({"k": "obj", "cls": "Other", "attrs": [
            ["old", {"k": "int", "v": 1}], ["oa", {"k": "nd", "dtype": "float32", "shape": [3],
                                                  "fill": 1}]]})
        kind = "zip" if tgt.endswith(".zip") else "dir"
        _, exc, _ = E.save(other, tgt, mode="w", store=kind)
        bump(probes, f"overwrite_existing_{kind}")
    elif pre == "file":
        with open(tgt, "wb") as f:
            f.write(b"not a zarr object")
    elif pre == "staledir":
        os.makedirs(os.path.join(tgt, "stale", "c"))
        with open(os.path.join(tgt, "stale", "zarr.json"), "w") as f:
            f.write("{broken")
        with open(os.path.join(tgt, "stale", "c", "0"), "wb") as f:
            f.write(b"\x00" * 10)


class _ForkedLoader:
    """A child process forked before the object graph is built.  It later receives
    (path, spec), loads the path under its own simulator and returns the structural diff."""

    def __init__(self, env):
        self.r1, self.w1 = os.pipe()
        self.r2, self.w2 = os.pipe()
        self.pid = os.fork()
        if self.pid == 0:
            code = 0
            try:
                os.close(self.w1)
                os.close(self.r2)
                from ..simloop import Sim

                Sim.current = None
                with os.fdopen(self.r1, "r") as fin:
                    line = fin.readline()
                if line.strip():
                    req = json.loads(line)
                    env2 = dict(env, sched_seed=env.get("sched_seed", 0) + 1)
                    with serio.SerEnv(env2) as E:
                        got, exc, _ = E.load(req["path"])
                        if exc is not None:
                            out = [["load_raised", "$", repr(exc)]]
                        else:
                            out = [list(x) for x in graphs.equal(graphs.build(req["spec"]), got)]
                    with os.fdopen(self.w2, "w") as fout:
                        fout.write(json.dumps(out) + "\n")
            except BaseException as e:  # noqa: BLE001
                try:
                    os.write(self.w2, (json.dumps([["helper_error", "$", repr(e)]]) + "\n").encode())
                except Exception:
                    pass
                code = 3
            finally:
                os._exit(code)
        os.close(self.r1)
        os.close(self.w2)
        self._sent = False

    def load_and_diff(self, path, spec):
        with os.fdopen(self.w1, "w") as f:
            f.write(json.dumps({"path": path, "spec": spec}) + "\n")
        self._sent = True
        with os.fdopen(self.r2, "r") as f:
            line = f.readline()
        os.waitpid(self.pid, 0)
        self.pid = None
        if not line.strip():
            from ..core import HarnessError

            raise HarnessError("forked loader returned nothing")
        out = json.loads(line)
        if out and out[0][0] == "helper_error":
            from ..core import HarnessError

            raise HarnessError(f"forked loader failed: {out[0][2]}")
        return [tuple(x) for x in out]

    def close(self):
        if self.pid:
            try:
                if not self._sent:
                    os.close(self.w1)
                    os.close(self.r2)
                os.waitpid(self.pid, 0)
            except Exception:
                pass
            self.pid = None


def plan_size(plan):
    return graphs.count_nodes(plan["graph"])


def shrink(plan):
    if len(plan["cfgs"]) > 1:
        for i in range(len(plan["cfgs"])):
            p = copy.deepcopy(plan)
            p["cfgs"] = [plan["cfgs"][i]]
            yield p
    if plan.get("other_process"):
        p = copy.deepcopy(plan)
        p["other_process"] = False
        yield p
    if plan.get("alias"):
        p = copy.deepcopy(plan)
        p["alias"] = None
        yield p
    if plan.get("other_interpreter"):
        p = copy.deepcopy(plan)
        p["other_interpreter"] = None
        yield p
    for i, c in enumerate(plan["cfgs"]):
        if c["name"] not in ("o", "o.zip"):
            p = copy.deepcopy(plan)
            p["cfgs"][i]["name"] = "o.zip" if _final(c).endswith(".zip") else "o"
            yield p
    if len(plan["graph"]["attrs"]) >= 200:
        p = copy.deepcopy(plan)
        p["graph"]["attrs"] = [a for a in p["graph"]["attrs"] if not (
            a[0].startswith("m") and a[0][1:].isdigit())]
        yield p
    if plan["env"] != serio.DEFAULT_ENV:
        p = copy.deepcopy(plan)
        p["env"] = copy.deepcopy(serio.DEFAULT_ENV)
        yield p
    for i, c in enumerate(plan["cfgs"]):
        simple = {"mode": "w", "pre": "absent", "level": 4, "path_kind": "str"}
        if any(c[k] != v for k, v in simple.items()):
            p = copy.deepcopy(plan)
            p["cfgs"][i].update(simple)
            yield p
    for g2 in graphs.shrink_spec(plan["graph"]):
        p = copy.deepcopy(plan)
        p["graph"] = g2
        yield p
