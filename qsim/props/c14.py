"""C14 — skip lists remove exactly the named attributes, at save or load time; type skipping at
save time; recorded lists honoured by later loads; confluence of where the skip is given.
Engine: E-simio + E-graphs (same harness as C01)."""
from __future__ import annotations

import copy
import hashlib
import os

import numpy as np
import torch

from .. import graphs, serio
from ..core import Rng, Violation, bump, new_result, plan_digest

ID = "C14"
LEVEL = "exploration"
ENGINE = "simio"
TIERS = {
    "quick": {"runs": 2000, "budget_s": 70, "chunk": 6},
    "thorough": {"runs": 40000, "budget_s": 1500, "chunk": 12},
}
RULE = ("one evaluation = one seeded attribute-nested object graph (children 1-3 levels deep, names "
        "repeated across levels, same-named classes from a second module) x skip set (names "
        "present/absent at any depth incl. names equal to properties/class attributes and "
        "underscore twins, or a list of types incl. base classes, nested classes, abstract base "
        "classes, NumPy abstract scalar types and NoneType; as bare str, list, tuple or set) "
        "x store x I/O schedule, run through the histories H0 save();load()  H1 save(skip=S);load()  "
        "H2 save();load(skip=S)  H3 save(skip=S1);load(skip=S2)  H4 H1 then save();load()  "
        "H5 save(skip=types);load(); every result is compared with the reference model "
        "prune(H0 result, paths removed by S/T on the original graph). distinct_nontrivial = distinct "
        "(graph, skip set, store) digests whose skip set removes at least one attribute.")
SCHED_MEASURE = "distinct executor completion-order signatures over all saves/loads of the run"
ASSUMPTIONS = [
    "nested AutoSerialize objects are reached through attributes only (the property's quantifier); "
    "container contents are left alone by code and model",
    "type skipping is compared at save time only; types are matched with isinstance on the original "
    "attribute values",
    "remaining attributes are compared with the unskipped round trip of the same graph in the same "
    "run, so C01 infidelities cannot show up as C14 violations",
]
COMPONENTS_REAL = ["quantem.core.io.serialize", "zarr 3.4", "zipfile", "torch.save/load",
                   "real file I/O in tmpfs sandbox"]
COMPONENTS_STUB = ["zarr sync()/loop thread/thread pool -> SimLoop", "LocalStore -> SimStore",
                   "os.walk / list_dir order (seeded)", "tempfile location (sandbox)"]
EXPECTED_PROBES = ["skip_name_at_depth_ge2", "skip_name_absent", "skip_name_is_array",
                   "skip_name_is_group", "skip_name_is_path_attr", "type_skip_subclass_hit",
                   "skip_name_repeated_across_levels", "skip_as_bare_string", "type_skip_removed",
                   "one_object_under_two_names", "shared_object_skipped_under_one_name_only",
                   "third_generation", "empty_skip_argument", "cycle_closed_by_a_skipped_attribute",
                   "dotted_skip_name_child_dot_attr"]

LEAF_KINDS = ["int", "float", "bool", "none", "str", "path", "list", "tuple", "dict", "set", "nd",
              "npscalar", "tensor", "module", "numseq"]
TYPE_POOL = ["ndarray", "Tensor", "list", "tuple", "dict", "set", "str", "int", "float", "bool",
             "Node", "Leaf", "Other", "Path", "Module", "Inner", "integer", "PosixPath",
             # abstract base classes (instances by registration, not by inheritance), NumPy's
             # abstract scalar hierarchy, the same-named classes of the second module, NoneType
             "Mapping", "Sequence", "AbcSet", "Number", "Integral", "Real", "PathLike", "Sized",
             "generic", "floating", "Node@2", "Inner@2", "NoneType"]
C14_NAMES = ["a", "b", "c", "data", "_p", "x1", "info", "child", "p", "arr", "t", "k-1", "a.b",
             "ab", "arr2", "_p_", ".h", "fa", "A", "_a",
             # not in Unicode normal form (NFC/NFKC folding would change them), with their folded twins
             "\u00b5_abs", "\u03bc_abs", "\u212b_px", "\u00c5_px", "cafe\u0301", "caf\u00e9", "\ufb01le",
             # class-private spellings and the name-mangled forms Python stores for them
             "__x", "_Plain__x", "_Node__x", "_Leaf__x", "_Inner__x", "_Other__x", "__x__"]


def _types(names):
    import collections.abc
    import numbers
    import os
    import pathlib

    import qsim_models as qm

    m = {"ndarray": np.ndarray, "Tensor": torch.Tensor, "list": list, "tuple": tuple, "dict": dict,
         "set": set, "str": str, "int": int, "float": float, "bool": bool, "Node": qm.Node,
         "Leaf": qm.Leaf, "Other": qm.Other, "Path": pathlib.PurePath, "Module": torch.nn.Module,
         "Inner": qm.Outer.Inner, "integer": np.integer, "PosixPath": pathlib.PosixPath,
         "Mapping": collections.abc.Mapping, "Sequence": collections.abc.Sequence,
         "AbcSet": collections.abc.Set, "Number": numbers.Number, "Integral": numbers.Integral,
         "Real": numbers.Real, "PathLike": os.PathLike, "Sized": collections.abc.Sized,
         "generic": np.generic, "floating": np.floating, "Node@2": qm.CLASSES["Node@2"],
         "Inner@2": qm.CLASSES["Inner@2"], "NoneType": type(None)}
    return [m[n] for n in names]


RULE = RULE + ' Round 15: names and types interleaved in seeded order inside one skip argument.'


def setup():
    serio.setup()


def _gen_tree(rng, opts, depth, maxdepth):
    cls = rng.pick(["Plain", "Node", "Leaf", "Other", "Plain", "Node", "AttrsLike", "Inner"]) if depth else \
        rng.pick(["Plain", "Node", "AttrsLike"])
    if cls in ("Plain", "Node", "Inner") and rng.fork(("twin", depth)).chance(0.2):
        cls += "@2"     # same class name, other module
    if cls == "AttrsLike":
        names = ["fa", "fb", "fc"]
    else:
        n = rng.pick([1, 2, 3, 4, 5])
        used = set()
        names = [graphs.gen_name(rng, used, C14_NAMES) for _ in range(n)]
    attrs = []
    budget = [8]
    for nm in names:
        if depth < maxdepth and rng.chance(0.4 if depth == 0 else 0.3):
            attrs.append([nm, _gen_tree(rng, opts, depth + 1, maxdepth)])
        else:
            attrs.append([nm, graphs.gen_value(rng, opts, 1, budget)])
    if depth == 0 and not any(a[1]["k"] == "obj" for a in attrs) and cls != "AttrsLike":
        attrs.append(["child", _gen_tree(rng, opts, 1, maxdepth)])
    return {"k": "obj", "cls": cls, "attrs": attrs}


def _attr_names(spec, depth=0, out=None):
    out = out if out is not None else []
    for n, s in spec["attrs"]:
        out.append((n, depth, s["k"]))
        if s["k"] == "obj":
            _attr_names(s, depth + 1, out)
    return out


def gen(rng: Rng, tier, i):
    opts = {"kinds": rng.subset(LEAF_KINDS, 0.6, 3), "regime": "tiny", "maxdepth": 2, "nodes": 20}
    g = graphs.sanitize(_gen_tree(rng.fork("tree"), opts, 0, rng.pick([1, 2, 3, 3, 4, 5])))
    names = _attr_names(g)
    present = sorted({n for n, _, _ in names})
    r = rng.fork("skip")
    S = r.subset(present, p=r.pick([0.15, 0.3, 0.6]), at_least=1)
    S += r.subset(["absent1", "zz", "values", "0", "summary", "kind"], p=0.3)
    # a DOTTED name built from the graph's structure: "<attribute holding a child>.<attribute of that
    # child>" is one (absent) name, not a path - nothing may be removed because of it
    dr = rng.fork("dotted")
    kids_ = [(n, s_) for n, s_ in g["attrs"] if s_["k"] == "obj" and s_["attrs"]]
    if kids_ and dr.chance(0.25):
        cn, cs = dr.pick(kids_)
        dotted = f"{cn}.{dr.pick([a for a, _ in cs['attrs']])}"
        if dotted not in present:
            S.append(dotted)
    r.shuffle(S)
    cut = r.randrange(len(S) + 1)
    S1, S2 = S[:cut], S[cut:]
    if r.chance(0.3) and S1 and S2:
        S2 = S2 + [S1[0]]  # overlap is legal
    T = r.subset(TYPE_POOL, p=0.2, at_least=1)
    form = r.pick(["list", "tuple", "bare" if len(S) == 1 else "list", "set"])
    store = rng.pick(["zip", "dir"])
    x = rng.fork("extra")
    # the SAME object reachable under two root attribute names (one of which may be skipped)
    alias = None
    roots = [n for n, s_ in g["attrs"] if s_["k"] in ("obj", "nd", "list", "dict", "tensor")]
    if roots and g["cls"] != "AttrsLike" and x.chance(0.25):
        new = x.pick([n for n in C14_NAMES + ["twin"] if n not in {a for a, _ in g["attrs"]}])
        alias = [x.pick(roots), new]
        if x.chance(0.5) and new not in S:
            S = S + [new]
            S2 = S2 + [new]
    # a BACK-REFERENCE from a child to the root: such a graph can only be saved because the skip list
    # names the attribute that closes the cycle
    cyc = None
    kids = [n for n, s_ in g["attrs"] if s_["k"] == "obj" and s_["cls"] not in ("AttrsLike", "Hybrid")]
    if kids and g["cls"] != "AttrsLike" and x.chance(0.1):
        cyc = [x.pick(kids), x.pick(["owner", "parent", "_root"])]
    return {"graph": g, "S": S, "S1": S1, "S2": S2, "T": T, "form": form, "store": store,
            "alias": alias, "cycle": cyc,
            # how the load-time list is spelled, repeated entries, empty skip arguments, generations
            "load_form": x.pick(["same", "same", "list", "tuple", "set", "frozenset", "dict_keys"]),
            "dups": x.chance(0.2), "empty_skip": x.pick([None, None, "list", "tuple", "str", "set"]),
            "gens": x.pick([2, 2, 3]),
            "mix_types_into_names": r.chance(0.3), "mix_order": r.fork("mixo").pick([None, 1, 2, 3, 4, 5]), "h5_second": r.chance(0.3),
            "level": rng.pick([None, 0, 4, 9]),
            "env": serio.gen_env(rng.fork("env"))}


# ------------------------------------------------------------------------------------------
# reference model
def removed_paths(obj, S, T, path=()):
    """Attribute paths (tuples of names) removed by name set S / type list T on the ORIGINAL graph,
    at every attribute-nested level."""
    from quantem.core.io.serialize import AutoSerialize

    out = []
    fields = getattr(type(obj), "__attrs_attrs__", None)
    items = [(f.name, getattr(obj, f.name)) for f in fields] if fields else list(vars(obj).items())
    for n, v in items:
        if n in S or (T and isinstance(v, tuple(T))):
            out.append(path + (n,))
        elif isinstance(v, AutoSerialize):
            out += removed_paths(v, S, T, path + (n,))
    return out


def prune(obj, paths):
    """Remove attribute paths from a LOADED object (in place)."""
    for p in paths:
        cur = obj
        ok = True
        for n in p[:-1]:
            if n not in vars(cur):
                ok = False
                break
            cur = vars(cur)[n]
        if ok:
            vars(cur).pop(p[-1], None)
    return obj


def _build(plan, with_cycle=False):
    o = graphs.build(plan["graph"])
    cy = plan.get("cycle")
    if with_cycle and cy and cy[0] in vars(o) and cy[1] not in vars(vars(o)[cy[0]]):
        vars(o)[cy[0]].__dict__[cy[1]] = o          # child -> root
    al = plan.get("alias")
    if al and al[0] in vars(o) and al[1] not in vars(o):
        o.__dict__[al[1]] = o.__dict__[al[0]]      # one object, two names
    return o


def _skip_arg(names, form, types=(), dups=False, order=None):
    lst = list(names) + list(types)
    if dups and lst:
        lst = lst + [lst[0]] + lst[-1:]
    if order is not None and names and types:
        # names and types INTERLEAVED in one argument (round 15, S-C14o: always names-then-types);
        # Ptychography.save() itself appends names to whatever the user passed
        import random as _random
        _random.Random(order).shuffle(lst)
    if form == "frozenset" and not types:
        return frozenset(lst)
    if form == "dict_keys" and not types:
        return dict.fromkeys(lst).keys()
    if form == "bare" and len(lst) == 1:
        return lst[0]
    if form == "tuple":
        return tuple(lst)
    if form == "set" and not types:
        return set(lst)
    return lst


def run(plan):
    res = new_result()
    spec = plan["graph"]
    S, S1, S2 = plan["S"], plan["S1"], plan["S2"]
    T = _types(plan["T"])
    store = plan["store"]
    ext = ".zip" if store == "zip" else ""
    names = _attr_names(spec)
    # probes
    for n, d, k in names:
        if n in S:
            if d >= 1:
                bump(res["probes"], "skip_name_at_depth_ge2")
            if k == "nd":
                bump(res["probes"], "skip_name_is_array")
            if k in ("obj", "list", "tuple", "dict", "set", "tensor", "module"):
                bump(res["probes"], "skip_name_is_group")
            if k == "path":
                bump(res["probes"], "skip_name_is_path_attr")
    if any(n not in {x for x, _, _ in names} for n in S):
        bump(res["probes"], "skip_name_absent")
    _top = {n for n, d, k in names if d == 0 and k == "obj"}
    if any("." in n and n.split(".", 1)[0] in _top and n not in {x for x, _, _ in names} for n in S):
        bump(res["probes"], "dotted_skip_name_child_dot_attr")
    depth_of = {}
    for n, d, _ in names:
        depth_of.setdefault(n, set()).add(d)
    if any(len(depth_of.get(n, ())) > 1 for n in S):
        bump(res["probes"], "skip_name_repeated_across_levels")
    if plan["form"] == "bare" and len(S) == 1:
        bump(res["probes"], "skip_as_bare_string")
    with serio.SerEnv(plan["env"]) as E:
        kw = {"store": store, "compression_level": plan["level"]}
        orig = _build(plan)
        if plan.get("alias") and plan["alias"][1] in vars(orig):
            bump(res["probes"], "one_object_under_two_names")
            if (plan["alias"][0] in S) != (plan["alias"][1] in S):
                bump(res["probes"], "shared_object_skipped_under_one_name_only")
        rp_names = removed_paths(orig, set(S), [])
        rp_types = removed_paths(orig, set(), T)
        if rp_types:
            bump(res["probes"], "type_skip_removed")
            import qsim_models as qm

            if qm.Node in T and any(
                    type(_get(orig, p)).__name__ == "Leaf" for p in rp_types):
                bump(res["probes"], "type_skip_subclass_hit")
        del orig

        cyc = plan.get("cycle")
        cyc_ok = bool(cyc) and cyc[0] in vars(_build(plan)) and not any(
            cyc[1] == n for n, _, _ in names)
        if cyc_ok:
            bump(res["probes"], "cycle_closed_by_a_skipped_attribute")

        def do(tag, save_skip, load_skip, name, second=False, types_at_save=(), with_cycle=False):
            obj = _build(plan, with_cycle=with_cycle)
            sk = _skip_arg(save_skip, plan["form"], types_at_save, dups=plan.get("dups", False),
                           order=plan.get("mix_order"))
            if save_skip and types_at_save and plan.get("mix_order") is not None:
                bump(res["probes"], "names_and_types_interleaved")
            _, exc, _ = E.save(obj, E.path(name + ext), mode="w", skip=sk, **kw) if (
                save_skip or types_at_save) else E.save(obj, E.path(name + ext), mode="w", **kw)
            del obj
            if exc is not None:
                res["violations"].append(Violation(
                    "op_raised", f"{tag}: save(skip={sk!r}) raised {exc!r}",
                    f"op_raised:save:{type(exc).__name__}"))
                return None
            lf = plan.get("load_form", "same")
            lsk = _skip_arg(load_skip, plan["form"] if lf == "same" else lf,
                            dups=plan.get("dups", False))
            got, exc, _ = E.load(E.path(name + ext), skip=lsk) if load_skip else E.load(
                E.path(name + ext))
            if exc is not None:
                res["violations"].append(Violation(
                    "op_raised", f"{tag}: load(skip={lsk!r}) raised {exc!r}",
                    f"op_raised:load:{type(exc).__name__}"))
                return None
            for gen_no in range(2, (plan.get("gens", 2) if second else 1) + 1):
                _, exc, _ = E.save(got, E.path(f"{name}g{gen_no}{ext}"), mode="w", **kw)
                if exc is None:
                    got, exc, _ = E.load(E.path(f"{name}g{gen_no}{ext}"))
                if exc is not None:
                    res["violations"].append(Violation(
                        "op_raised", f"{tag}: generation {gen_no} raised {exc!r}",
                        f"op_raised:gen2:{type(exc).__name__}"))
                    return None
                if gen_no == 3:
                    bump(res["probes"], "third_generation")
            return got

        attrs_field_skipped_early = any(
            s_["k"] == "obj" and s_["cls"] == "AttrsLike" and any(n in S for n, _ in s_["attrs"])
            for _, s_ in graphs.walk(spec))
        r0 = do("H0", [], [], "h0")
        if r0 is None:
            E.finish(res)
            res["digest"] = E.log.digest()
            return res

        def expect(paths):
            # every comparison gets its own pruned copy of the unskipped round trip
            return prune(copy.deepcopy(r0), paths)

        def check(tag, oracle, got, paths):
            if got is None:
                return
            d = graphs.equal(expect(paths), got)
            if d:
                res["violations"].append(Violation(
                    oracle, f"{tag} S={S} T={plan['T']}: {[tuple(x) for x in d[:4]]}",
                    f"{oracle}:{graphs.diff_sig(d)}"))

        # an EMPTY skip argument (list / tuple / '' / set) is no skipping at all
        es = plan.get("empty_skip")
        if es:
            bump(res["probes"], "empty_skip_argument")
            empty = {"list": [], "tuple": (), "str": "", "set": set()}[es]
            obj = _build(plan)
            _, exc, _ = E.save(obj, E.path("h0e" + ext), mode="w", skip=empty, **kw)
            del obj
            got = None
            if exc is None:
                got, exc, _ = E.load(E.path("h0e" + ext), skip=empty if es != "str" else [])
            if exc is not None:
                res["violations"].append(Violation(
                    "op_raised", f"H0e: save/load with skip={empty!r} raised {exc!r}",
                    f"op_raised:empty_skip:{type(exc).__name__}"))
            else:
                check("H0e save(skip=<empty>);load(skip=<empty>)", "empty_skip_not_neutral", got, [])
        h1 = do("H1", S, [], "h1")
        check("H1 save(skip=S);load()", "skip_at_save", h1, rp_names)
        if cyc_ok:
            # the cyclic graph, saved with the cycle-closing attribute in the skip list: the result
            # is the acyclic graph's result (same pruning), for one and for two generations
            hc = do("H1c", list(S) + [cyc[1]], [], "h1c", with_cycle=True)
            check(f"H1c cyclic graph, save(skip=S+[{cyc[1]!r}]);load()", "skip_at_save", hc, rp_names)
            if not attrs_field_skipped_early:
                hc2 = do("H4c", list(S) + [cyc[1]], [], "h4c", second=True, with_cycle=True)
                check("H4c cyclic graph, two generations", "skip_generation", hc2, rp_names)
        h2 = do("H2", [], S, "h2")
        check("H2 save();load(skip=S)", "skip_at_load", h2, rp_names)
        if h1 is not None and h2 is not None:
            d = graphs.equal(h1, h2)
            if d and not any(v["oracle"] in ("skip_at_save", "skip_at_load")
                             for v in res["violations"]):
                res["violations"].append(Violation(
                    "skip_confluence", f"H1 vs H2 differ: {[tuple(x) for x in d[:3]]}",
                    "skip_confluence:" + graphs.diff_sig(d)))
        h3 = do("H3", S1, S2, "h3")
        check(f"H3 save(skip={S1});load(skip={S2})", "skip_split", h3, rp_names)
        # an attrs-style object that lost a field cannot be saved again (save reads every field):
        # the second generation is only defined when no attrs field was skipped
        attrs_field_skipped = any(
            s_["k"] == "obj" and s_["cls"] == "AttrsLike" and any(n in S for n, _ in s_["attrs"])
            for _, s_ in graphs.walk(spec))
        if not attrs_field_skipped:
            h4 = do("H4", S, [], "h4", second=True)
            check("H4 save(skip=S);load();save();load()", "skip_generation", h4, rp_names)
        tys = T
        orig5 = _build(plan)
        both = removed_paths(orig5, set(S) if plan.get("mix_types_into_names") else set(), T)
        # an attrs-style object that lost a field (by name or by type) cannot be saved again
        attrs_lost_field = any(
            getattr(type(_get(orig5, p_[:-1])), "__attrs_attrs__", None) is not None for p_ in both)
        del orig5
        h5 = do("H5", S if plan.get("mix_types_into_names") else [], [], "h5", types_at_save=tys,
                second=plan.get("h5_second", False) and not attrs_lost_field)
        check("H5 save(skip=types);load()", "skip_types_at_save", h5, both)
        res["sched"].append(hashlib.blake2b(repr(E.sim.completion_sig).encode(),
                                            digest_size=6).hexdigest())
        E.finish(res)
        res["digest"] = E.log.digest()
    if rp_names or rp_types:
        res["nontrivial"] = plan_digest({k: plan[k] for k in ("graph", "S", "T", "store")})
    seen, uniq = set(), []
    for v in res["violations"]:
        if (v["oracle"], v["sig"]) not in seen:
            seen.add((v["oracle"], v["sig"]))
            uniq.append(v)
    res["violations"] = uniq
    res["digest"] += ":" + hashlib.blake2b(
        repr(sorted((v["oracle"], v["sig"]) for v in uniq)).encode(), digest_size=4).hexdigest()
    return res


def _get(obj, path):
    cur = obj
    for n in path:
        cur = vars(cur)[n] if n in vars(cur) else getattr(cur, n)
    return cur


def plan_size(plan):
    return graphs.count_nodes(plan["graph"]) + len(plan["S"]) + len(plan["T"])


def shrink(plan):
    for key in ("S", "S1", "S2", "T"):
        lst = plan[key]
        if len(lst) > (1 if key == "T" else 0):
            for i in range(len(lst)):
                p = copy.deepcopy(plan)
                p[key] = lst[:i] + lst[i + 1:]
                if key == "S":
                    p["S1"] = [x for x in p["S1"] if x in p["S"]]
                    p["S2"] = [x for x in p["S2"] if x in p["S"]]
                yield p
    if plan["env"] != serio.DEFAULT_ENV:
        p = copy.deepcopy(plan)
        p["env"] = copy.deepcopy(serio.DEFAULT_ENV)
        yield p
    if plan.get("mix_types_into_names"):
        p = copy.deepcopy(plan)
        p["mix_types_into_names"] = False
        yield p
    for key, plain in (("alias", None), ("cycle", None), ("load_form", "same"), ("dups", False), ("empty_skip", None),
                       ("gens", 2)):
        if plan.get(key) not in (None, plain):
            yield {**copy.deepcopy(plan), key: plain}
    if plan["form"] != "list":
        p = copy.deepcopy(plan)
        p["form"] = "list"
        yield p
    for g2 in graphs.shrink_spec(plan["graph"]):
        # keep objects reachable through attributes only
        if any(s.get("k") in ("list", "tuple", "dict", "set") and any(
                (x[1] if isinstance(x, list) else x).get("k") == "obj" for x in s["items"])
               for _, s in graphs.walk(g2)):
            continue
        p = copy.deepcopy(plan)
        p["graph"] = g2
        yield p
