"""C04 — direct ptychography: batch-invariant, history-independent, linear, sub-mask recombination,
analytic parallax limits.   Engine: E-simsched (batch knob, allocation failure + retry, reuse of
one instance across calls)."""
from __future__ import annotations

import copy

import numpy as np

from .. import simsched
from ..core import HarnessError, Rng, Violation, bump, new_result, plan_digest

ID = "C04"
LEVEL = "exploration"
ENGINE = "simsched"
TIERS = {
    "quick": {"runs": 12000, "budget_s": 75, "chunk": 24},
    "thorough": {"runs": 350000, "budget_s": 1500, "chunk": 50},
}
RULE = ("one evaluation = one seeded problem (scan 5-12 incl. odd/non-square, detector grid 7-11, "
        "disc mask 9-37 pixels with soft-edged aperture, aberrations none/defocus/defocus+astigmatism, "
        "rotation) and ONE DirectPtychography instance reused for a history of 3-6 reconstruct calls "
        "with changing kernel (all five + aliases), batch size from the knob {1,2,n-1,n,n+1,divisor,"
        "non-divisor,None}, upsampling 1-3, filters and sub-masks, interleaved with MemoryError "
        "injected after j batches of pass 1 or 2 and a retry with a smaller batch; every call is "
        "compared with a FRESH instance run full-batch. Riding along on the same instances: "
        "linearity (alpha*A+beta*B), complementary sub-mask recombination with aperture weights "
        "(ssb/prlx/icom), the two analytic parallax limits (NumPy, incl. rotation), per-call "
        "rotation/aberration overrides, and an instance built with crop_bf_mask=True (padding 0-2) "
        "that must reproduce the un-cropped instance. Module-level size/chunk constants of "
        "quantem.* are lowered per run (tuning-knob randomisation). "
        "distinct_nontrivial = distinct (problem, history) digests with >= 2 batches in some call.")
SCHED_MEASURE = "distinct (kernel, num_bf, batch size, fault pass/position) schedule signatures"
SIM_TIME_NOTE = "no clock in this engine; sim_time_s is 0"
ASSUMPTIONS = [
    "float32 tolerance 2e-5 relative to the largest absolute value of the reference (HEAD <= 2e-7), "
    "1e-4 for the analytic parallax limits",
    "the translation sign of the parallax limit (image k is moved by +C10*lambda*k') and the sense "
    "of the detector rotation (k' = R(+angle) k) are pinned to HEAD's convention; the gradient is "
    "evaluated at the rotated pixel",
    "semiangle_cutoff is always a number (None raises in validate_gt at HEAD)",
]
COMPONENTS_REAL = ["direct_ptychography.DirectPtychography (from_virtual_bfs, _preprocess, "
                   "_return_bf_context, _return_kernel_contributions, reconstruct)",
                   "complex_probe (evaluate_probe, gamma_factor, aberration surfaces)",
                   "ptycho_utils.SimpleBatcher (real, wrapped)"]
COMPONENTS_STUB = ["SimpleBatcher in direct_ptychography -> FailingBatcher subclass (identical "
                   "behaviour + armed MemoryError)", "gc.collect in reconstruct -> no-op"]
EXPECTED_PROBES = ["two_pass_kernel", "retry_after_alloc_error_pass1", "retry_after_alloc_error_pass2",
                   "submask_used", "batch_size_1", "batch_nondivisor", "alias_name_used",
                   "upsampling_gt1", "filter_used", "linearity_checked", "recombination_checked",
                   "parallax_zero_aberration", "parallax_defocus_shift", "fractional_aperture_weight",
                   "parallax_with_rotation", "override_used", "cropped_mask_instance", "mask_not_a_disc", "energy_not_300kV",
                   "anisotropic_scan_sampling", "parallax_limit_on_cropped_instance",
                   "recombination_more_than_two_parts", "batch_size_numpy_int", "mask_calibrated_in_mrad",
                   "constructor_from_dataset4d", "constructor_from_dataset4d_shifted_patterns"]

KERNELS = {"ssb": ["ssb", "single-sideband", "acbf", "aberration-corrected-bright-field"],
           "obf": ["obf", "optimum-bright-field"], "mf": ["mf", "matched-filter"],
           "prlx": ["prlx", "parallax", "tcbf", "tilt-corrected-bright-field"],
           "icom": ["icom", "center-of-mass"]}
_ctx = {}


_SETUP_DONE = []


RULE = RULE + ' Round 16: an armed allocation-fault position that the library never reaches (it streams fewer batches than ceil(num_bf/batch)) is an observation, the call is judged like any successful call.'


def setup():
    if _SETUP_DONE:
        return
    _SETUP_DONE.append(1)
    from .. import core

    core.use_repo()
    import warnings

    warnings.filterwarnings("ignore")
    import torch

    torch.set_num_threads(1)
    import quantem.diffractive_imaging.direct_ptychography as dp
    from quantem.core.datastructures.dataset2d import Dataset2d
    from quantem.core.datastructures.dataset3d import Dataset3d
    from quantem.core.utils.utils import electron_wavelength_angstrom

    for name in ("SimpleBatcher", "gc"):
        if not hasattr(dp, name):
            raise HarnessError(f"direct_ptychography lost its module-level name {name}")
    fault = simsched.AllocFault()
    dp.SimpleBatcher = simsched.make_failing_batcher(dp.SimpleBatcher, fault)

    class _NoGC:
        @staticmethod
        def collect(*a, **k):
            return 0

    dp.gc = _NoGC()
    _ctx.update(torch=torch, dp=dp, D2=Dataset2d, D3=Dataset3d, lam=electron_wavelength_angstrom(300e3), lam_fn=electron_wavelength_angstrom,
                fault=fault)


def gen(rng: Rng, tier, i):
    n = rng.pick([7, 8, 9, 11])
    radius = rng.pick([1.5, 2.0, 2.3, 2.6, 3.0, 3.3])
    ab = rng.pick([{}, {"C10": rng.pick([50.0, 120.0, -80.0])},
                   {"C10": rng.pick([60.0, 150.0]), "C12": rng.pick([20.0, 40.0]),
                    "phi12": round(rng.uniform(0, 1.5), 2)}])
    plan = {"scan": [rng.pick([5, 6, 7, 9, 12]), rng.pick([5, 7, 8, 10])], "grid": n, "radius": radius,
            "fill": rng.randrange(10 ** 6), "ab": ab, "rot": rng.pick([0.0, 0.0, 0.3, -1.1]),
            "rs": rng.pick([0.15, 0.2, 0.25]), "cutoff": rng.pick([8.0, 10.0, 12.0, 15.0]),
            "calls": [], "linearity": None, "analytic": rng.chance(0.4),
            # beam energy, anisotropic scan sampling, masks that are not discs
            "energy": rng.fork("energy").pick([300e3, 300e3, 300e3, 80e3, 200e3]),
            "ss": rng.fork("ss").pick([[0.5, 0.5], [0.5, 0.5], [0.5, 0.5], [0.4, 0.7], [1.0, 0.25]]),
            "mask_kind": rng.fork("mk").pick(["disc", "disc", "disc", "ring", "half", "blobs"]),
            # calibration of the detector mask: reciprocal Angstrom, or milliradian (same pixels)
            "mask_units": rng.fork("mu").pick(["A^-1", "A^-1", "mrad"]),
            # the other constructor: the same stack and mask packed into a 4-D dataset (every pattern
            # displaced by an integer origin that is handed over as the fitted origin)
            "ctor4d": None}
    c4r = rng.fork("c4")
    if c4r.chance(0.3):
        plan["ctor4d"] = {"seed": c4r.randrange(10 ** 6), "shifted": c4r.chance(0.6),
                          "kernel": c4r.pick(["ssb", "prlx", "icom", "obf", "mf"]),
                          "b": ["knob", c4r.randrange(10 ** 6)]}
    _unused = {"ctor4d": None}
    for j in range(rng.pick([3, 4, 6])):
        r = rng.fork(("call", j))
        kern = r.pick(list(KERNELS))
        call = {"kernel": r.pick(KERNELS[kern]), "b": ["knob", r.randrange(10 ** 6)],
                "up": r.pick([1, 1, 1, 2, 3]), "lowpass": r.pick([None, None, 0.6]),
                "highpass": r.pick([None, None, 0.05]), "flip": r.chance(0.5),
                "submask": r.randrange(10 ** 6) if r.chance(0.3) else None}
        if r.chance(0.35):
            call["fault"] = {"pass": r.pick([0, 0, 1]), "after": r.randrange(0, 40)}
        if r.chance(0.2):
            call["override_ab"] = r.pick([{"C10": 30.0}, {"C10": -60.0, "C12": 25.0, "phi12": 0.4}, {}])
        if r.chance(0.15):
            call["override_rot"] = r.pick([0.0, 0.5, -0.7])
        plan["calls"].append(call)
    if rng.chance(0.5):
        plan["linearity"] = {"alpha": round(rng.uniform(-2, 2), 2), "beta": round(rng.uniform(-2, 2), 2),
                             "kernel": rng.pick(list(KERNELS)), "b": ["knob", rng.randrange(10 ** 6)]}
    # the same detector pixels described by a cropped mask array (crop_bf_mask=True is the library's
    # default; bf_mask_padding_px varies): the result depends on the stack, the mask and the
    # hyper-parameters only, not on how much empty border the mask array carries
    cr = rng.fork("crop")
    plan["crop"] = {"pad": cr.pick([0, 1, 1, 2]), "kernel": cr.pick([k_ for al in KERNELS.values() for k_ in al]),
                    "up": cr.pick([1, 1, 2]), "flip": cr.chance(0.3),
                    "b": ["knob", cr.randrange(10 ** 6)]} if cr.chance(0.5) else None
    plan["recombine"] = {"kernel": rng.pick(["ssb", "prlx", "icom"]), "seed": rng.randrange(10 ** 6),
                         "b": ["knob", rng.randrange(10 ** 6)],
                         # number of complementary parts and how the sub-mask argument is spelled
                         "parts": rng.fork("parts").pick([2, 2, 3, 4]),
                         "form": rng.fork("form").pick(["bool_tensor", "bool_tensor", "bool_ndarray",
                                                        "int_tensor", "float_ndarray"])
                         } if rng.chance(0.5) else None
    return plan


def _mask(plan):
    n = plan["grid"]
    k = np.fft.fftfreq(n) * n
    kx, ky = np.meshgrid(k, k, indexing="ij")
    r2 = kx ** 2 + ky ** 2
    disc = r2 <= plan["radius"] ** 2
    kind = plan.get("mask_kind", "disc")
    m = disc
    if kind == "ring":
        m = disc & (r2 >= 1.0)                   # central pixel removed
    elif kind == "half":
        m = disc & ((kx > 0) | ((kx == 0) & (ky >= 0)))
    elif kind == "blobs":
        m = disc & (np.abs(ky) >= 1)             # two separated blobs
    return m if m.sum() >= 3 else disc


def _lam(energy):
    """Relativistic electron wavelength in Angstrom (independent of the library's helper)."""
    return 12.2643 / np.sqrt(energy + 0.97845e-6 * energy ** 2)


def _stack(plan, nb, salt=0):
    g = np.random.Generator(np.random.PCG64(plan["fill"] + salt))
    return (g.random((nb, *plan["scan"])) + 0.5).astype(np.float32)


def _make(plan, vbf, mask, ab=None, rot=None, crop_pad=None, units=None):
    ss = plan.get("ss", [0.5, 0.5])
    v = _ctx["D3"].from_array(vbf, sampling=(1, ss[0], ss[1]), units=("index", "A", "A"))
    if (units or plan.get("mask_units", "A^-1")) == "mrad":
        # angle = lambda * k, with the library's own wavelength so that both calibrations describe the
        # same pixels to the last bit (the single-sideband kernels have exact cancellations whose
        # round-off is cut at 1e-6: a 1e-6 relative change of k can flip single terms)
        rs_mrad = plan["rs"] * float(_ctx["lam_fn"](plan.get("energy", 300e3))) * 1e3
        m = _ctx["D2"].from_array(mask, sampling=(rs_mrad, rs_mrad), units=("mrad", "mrad"))
    else:
        m = _ctx["D2"].from_array(mask, sampling=(plan["rs"], plan["rs"]), units=("A^-1", "A^-1"))
    kw = {"crop_bf_mask": False} if crop_pad is None else {"crop_bf_mask": True,
                                                            "bf_mask_padding_px": crop_pad}
    return _ctx["dp"].DirectPtychography.from_virtual_bfs(
        v, m, energy=plan.get("energy", 300e3), rotation_angle=plan["rot"] if rot is None else rot,
        aberration_coefs=dict(plan["ab"] if ab is None else ab), semiangle_cutoff=plan["cutoff"],
        verbose=0, **kw)


def _b(spec, n):
    return simsched.batch_size_knob(Rng(spec[1]), n)


def _submask(mask, seed, frac=None):
    g = Rng(seed)
    ii, jj = np.nonzero(mask)
    nb = len(ii)
    k = max(1, min(nb - 1, int(nb * (frac if frac is not None else g.uniform(0.2, 0.8)))))
    pick = sorted(g.sample(range(nb), k))
    sub = np.zeros_like(mask)
    sub[ii[pick], jj[pick]] = True
    return sub, np.asarray(pick)


def _relerr(a, b):
    return float(np.abs(a - b).max() / (np.abs(b).max() + 1e-30))


def run(plan):
    torch = _ctx["torch"]
    fault = _ctx["fault"]
    res = new_result()
    probes = res["probes"]
    TOL = 2e-5

    def viol(oracle, detail, sig):
        res["violations"].append(Violation(oracle, detail, sig))

    mask = _mask(plan)
    nb = int(mask.sum())
    vbf = _stack(plan, nb)
    if plan.get("mask_kind", "disc") != "disc":
        bump(probes, "mask_not_a_disc")
    if plan.get("energy", 300e3) != 300e3:
        bump(probes, "energy_not_300kV")
    if plan.get("ss", [0.5, 0.5]) != [0.5, 0.5]:
        bump(probes, "anisotropic_scan_sampling")
    fault.disarm()
    multi = [False]
    try:
        D = _make(plan, vbf.copy(), mask)
    except Exception as e:
        viol("op_raised", f"from_virtual_bfs raised {e!r}", f"op_raised:create:{type(e).__name__}")
        res["digest"] = plan_digest(plan)
        return res
    w = None

    def kwargs(call, m=None):
        kw = {"deconvolution_kernel": call["kernel"], "upsampling_factor": call.get("up", 1),
              "q_lowpass": call.get("lowpass"), "q_highpass": call.get("highpass"),
              "parallax_flip_phase": call.get("flip", True)}
        if m is not None:
            kw["bf_mask"] = torch.as_tensor(m)
        if call.get("override_ab") is not None:
            kw["override_aberration_coefs"] = dict(call["override_ab"])
            bump(probes, "override_used")
        if call.get("override_rot") is not None:
            kw["override_rotation_angle"] = call["override_rot"]
            bump(probes, "override_used")
        return kw

    def canon(name):
        return next(k for k, al in KERNELS.items() if name in al)

    try:
        for j, call in enumerate(plan["calls"]):
            kern = canon(call["kernel"])
            tag = f"call#{j}:{call['kernel']}"
            if call["kernel"] != kern:
                bump(probes, "alias_name_used")
            if kern in ("obf", "mf"):
                bump(probes, "two_pass_kernel")
            if call["up"] > 1:
                bump(probes, "upsampling_gt1")
            if call["lowpass"] or call["highpass"]:
                bump(probes, "filter_used")
            sub = None
            n_here = nb
            if call["submask"] is not None:
                sub, _ = _submask(mask, call["submask"])
                n_here = int(sub.sum())
                bump(probes, "submask_used")
            b = _b(call["b"], n_here)
            if b is not None and (b + j) % 4 == 0:
                b = np.int64(b)        # a batch size computed with NumPy
                bump(probes, "batch_size_numpy_int")
            bs = b if b is not None else n_here
            if bs == 1:
                bump(probes, "batch_size_1")
            if bs < n_here and n_here % bs:
                bump(probes, "batch_nondivisor")
            if bs < n_here:
                multi[0] = True
            kw = kwargs(call, sub)
            # reference: a fresh instance, full batch, addressed by the CANONICAL kernel name
            try:
                ref = _make(plan, vbf.copy(), mask).reconstruct(
                    max_batch_size=None, **dict(kw, deconvolution_kernel=kern))
                ref_stack = ref.corrected_stack.detach().numpy().copy()
                ref_bf = ref.corrected_bf.detach().numpy().copy()
            except Exception as e:
                viol("op_raised", f"{tag}: fresh full-batch reconstruct raised {e!r}",
                     f"op_raised:reconstruct:{kern}:{type(e).__name__}")
                continue
            f = call.get("fault")
            sig = f"{kern}:{n_here}:{bs}"
            if f and not (f["pass"] == 1 and kern not in ("obf", "mf")):
                nbatches = -(-n_here // bs)
                after = f["after"] % nbatches
                prev = None if D.corrected_stack is None else D.corrected_stack.detach().numpy().copy()
                fault.arm(f["pass"], after)
                fired = True
                try:
                    D.reconstruct(max_batch_size=b, **kw)
                    fault.disarm()
                    # the library streamed fewer batches than ceil(num_bf / batch) - how it partitions
                    # the pixels is its own business (a tree that skips pixels is judged by the
                    # comparison below, not by this harness's arithmetic): the call simply succeeded
                    fired = False
                    bump(res["obs"], "alloc_fault_position_not_reached")
                except MemoryError:
                    fault.disarm()
                    bump(res["faults"], f"alloc_error_pass{f['pass'] + 1}")
                except Exception as e:
                    fault.disarm()
                    viol("op_raised", f"{tag}: reconstruct(max_batch_size={b}) with an armed allocation "
                         f"fault raised {e!r}", f"op_raised:reconstruct:{kern}:{type(e).__name__}")
                    continue
                now = None if D.corrected_stack is None else D.corrected_stack.detach().numpy()
                if fired and ((prev is None) != (now is None) or (prev is not None and (
                        prev.shape != now.shape or prev.tobytes() != now.tobytes()))):
                    viol("failed_call_changed_output", f"{tag}: corrected_stack changed by a call "
                         f"that raised MemoryError in pass {f['pass'] + 1}",
                         f"failed_call_changed_output:{kern}")
                bump(probes, f"retry_after_alloc_error_pass{f['pass'] + 1}")
                b = max(1, bs // 2)
                sig += f":f{f['pass']}.{after}"
            try:
                D.reconstruct(max_batch_size=b, **kw)
            except Exception as e:
                viol("op_raised", f"{tag}: reconstruct(max_batch_size={b}) on the reused instance "
                     f"raised {e!r}", f"op_raised:reconstruct:{kern}:{type(e).__name__}")
                continue
            res["sched"].append(sig)
            res["steps"] += 1
            got = D.corrected_stack.detach().numpy()
            if not np.isfinite(ref_stack).all():
                # e.g. a sub-mask whose pixels all lie outside the aperture (zero total weight):
                # the reference itself is undefined, nothing to compare
                bump(res["obs"], "degenerate_reference_nonfinite")
                continue
            if got.shape != ref_stack.shape:
                viol("result_shape", f"{tag}: shape {got.shape} vs reference {ref_stack.shape}",
                     f"result_shape:{kern}")
                continue
            err = _relerr(got, ref_stack)
            if not err <= TOL:
                viol("not_batch_or_history_invariant",
                     f"{tag} (call {j} on the reused instance, max_batch_size={b}, num_bf={n_here}, "
                     f"up={call['up']}, submask={'yes' if sub is not None else 'no'}): deviates from a "
                     f"fresh full-batch reconstruction by {err:.3g} (relative)",
                     f"not_batch_or_history_invariant:{kern}")
            if not _relerr(D.corrected_bf.detach().numpy(), ref_bf) <= 5 * TOL:
                viol("not_batch_or_history_invariant", f"{tag}: corrected_bf deviates",
                     f"not_batch_or_history_invariant:bf:{kern}")
        # ---- from_dataset4d on a 4-D dataset that holds exactly this stack and mask
        c4 = plan.get("ctor4d")
        if c4:
            bump(probes, "constructor_from_dataset4d")
            sx_, sy_ = plan["scan"]
            n_ = plan["grid"]
            d4 = np.zeros((sx_, sy_, n_, n_), np.float32)
            d4[..., mask] = np.moveaxis(vbf, 0, -1)
            g4 = np.random.Generator(np.random.PCG64(c4["seed"]))
            org = np.zeros((sx_ * sy_, 2), np.int64)
            if c4["shifted"]:
                org = np.stack([g4.integers(0, n_, sx_ * sy_), g4.integers(0, n_, sx_ * sy_)], -1)
                flat = d4.reshape(sx_ * sy_, n_, n_)
                for q in range(sx_ * sy_):
                    flat[q] = np.roll(flat[q], (org[q, 0], org[q, 1]), (0, 1))
                bump(probes, "constructor_from_dataset4d_shifted_patterns")
            ss_ = plan.get("ss", [0.5, 0.5])
            from quantem.core.datastructures.dataset4dstem import Dataset4dstem as _D4

            ds4 = _D4.from_array(d4, sampling=(ss_[0], ss_[1], plan["rs"], plan["rs"]),
                                 units=("A", "A", "A^-1", "A^-1"))
            kwc = dict(energy=plan.get("energy", 300e3), semiangle_cutoff=plan["cutoff"],
                       aberration_coefs=dict(plan["ab"]), rotation_angle=plan["rot"], crop_bf_mask=False,
                       verbose=0)
            try:
                Da = _ctx["dp"].DirectPtychography.from_dataset4d(
                    ds4, force_fitted_origin=org.astype(np.float32), max_batch_size=_b(c4["b"], sx_ * sy_),
                    **kwc)
                vn = vbf / vbf.mean((1, 2), keepdims=True)
                Db = _ctx["dp"].DirectPtychography.from_virtual_bfs(
                    _ctx["D3"].from_array(vn, sampling=(1, ss_[0], ss_[1]), units=("index", "A", "A")),
                    _ctx["D2"].from_array(mask, sampling=(plan["rs"], plan["rs"]), units=("A^-1", "A^-1")),
                    **kwc)
                if tuple(Da.bf_mask.shape) != tuple(Db.bf_mask.shape) or not bool(
                        (Da.bf_mask == Db.bf_mask).all()):
                    viol("constructors_disagree", "from_dataset4d found another bright-field mask than "
                         "the one the patterns were built from", "constructors_disagree:mask")
                else:
                    ra_ = Da.reconstruct(deconvolution_kernel=c4["kernel"], parallax_flip_phase=False
                                         ).corrected_stack.detach().numpy()
                    rb_ = Db.reconstruct(deconvolution_kernel=c4["kernel"], parallax_flip_phase=False
                                         ).corrected_stack.detach().numpy()
                    if np.isfinite(rb_).all() and np.abs(rb_).max() > 0 and (
                            ra_.shape != rb_.shape or not _relerr(ra_, rb_) <= 5 * TOL):
                        viol("constructors_disagree", f"kernel {c4['kernel']}: from_dataset4d (integer "
                             f"origins {'shifted' if c4['shifted'] else 'zero'}) deviates from "
                             f"from_virtual_bfs on the same stack and mask by "
                             f"{_relerr(ra_, rb_) if ra_.shape == rb_.shape else float('nan'):.3g}",
                             f"constructors_disagree:{c4['kernel']}")
            except Exception as e:
                viol("op_raised", f"from_dataset4d / reconstruct raised {e!r}",
                     f"op_raised:from_dataset4d:{type(e).__name__}")
        # ---- the same detector pixels calibrated in mrad and in 1/A
        if plan.get("mask_units") == "mrad" and plan["calls"]:
            bump(probes, "mask_calibrated_in_mrad")
            c0 = plan["calls"][0]
            kw0 = {"deconvolution_kernel": c0["kernel"], "upsampling_factor": c0.get("up", 1),
                   "parallax_flip_phase": c0.get("flip", True)}
            ra = _make(plan, vbf.copy(), mask, units="A^-1").reconstruct(max_batch_size=None, **kw0
                                                                          ).corrected_stack.detach().numpy()
            rm = _make(plan, vbf.copy(), mask, units="mrad").reconstruct(max_batch_size=None, **kw0
                                                                         ).corrected_stack.detach().numpy()
            if np.isfinite(ra).all() and np.abs(ra).max() > 0:
                # the independent wavelength formula agrees with the library's to ~1e-6: allow 1e-3
                if ra.shape != rm.shape or not _relerr(rm, ra) <= 1e-3:
                    viol("depends_on_mask_units", f"kernel {c0['kernel']}: the instance whose mask is "
                         f"calibrated in mrad deviates from the 1/A instance by "
                         f"{_relerr(rm, ra) if ra.shape == rm.shape else float('nan'):.3g}",
                         f"depends_on_mask_units:{canon(c0['kernel'])}")
        # ---- cropped mask array vs the un-cropped one
        cr = plan.get("crop")
        if cr:
            ms = np.fft.fftshift(mask)
            ii, jj = np.nonzero(ms)
            fits = min(ii.min(), jj.min()) - cr["pad"] >= 0 and max(ii.max(), jj.max()) + cr["pad"] < mask.shape[0]
            smaller = (ii.max() - ii.min() + 1 + 2 * cr["pad"]) < mask.shape[0]
            if fits:
                kern = canon(cr["kernel"])
                kw = {"deconvolution_kernel": cr["kernel"], "upsampling_factor": cr["up"],
                      "parallax_flip_phase": cr["flip"]}
                full = _make(plan, vbf.copy(), mask).reconstruct(max_batch_size=None, **kw)
                fs = full.corrected_stack.detach().numpy().copy()
                try:
                    Dc = _make(plan, vbf.copy(), mask, crop_pad=cr["pad"])
                    if tuple(Dc.bf_mask.shape) != tuple(mask.shape):
                        bump(probes, "cropped_mask_instance")
                    cs = Dc.reconstruct(max_batch_size=_b(cr["b"], nb), **kw
                                        ).corrected_stack.detach().numpy()
                except HarnessError:
                    raise
                except Exception as e:
                    viol("op_raised", f"cropped-mask instance (pad {cr['pad']}) raised {e!r}",
                         f"op_raised:crop:{kern}:{type(e).__name__}")
                    cs = None
                if cs is not None and np.isfinite(fs).all() and np.abs(fs).max() > 0:
                    if cs.shape != fs.shape or not _relerr(cs, fs) <= TOL:
                        err = _relerr(cs, fs) if cs.shape == fs.shape else float("nan")
                        viol("depends_on_mask_array_border",
                             f"kernel {cr['kernel']} up={cr['up']}: instance built with crop_bf_mask=True, "
                             f"bf_mask_padding_px={cr['pad']} (mask {mask.shape} -> {tuple(Dc.bf_mask.shape)}"
                             f") deviates from the un-cropped instance by {err:.3g}",
                             f"depends_on_mask_array_border:{kern}")
        # ---- linearity
        lin = plan.get("linearity")
        if lin:
            bump(probes, "linearity_checked")
            A, B = _stack(plan, nb, 1), _stack(plan, nb, 2)
            C = (lin["alpha"] * A + lin["beta"] * B).astype(np.float32)
            b = _b(lin["b"], nb)
            outs = []
            for q, st in enumerate((A, B, C)):
                inst = D if False else _make(plan, st.copy(), mask)
                outs.append(inst.reconstruct(deconvolution_kernel=lin["kernel"],
                                             max_batch_size=b if q == 2 else None)
                            .corrected_stack.detach().numpy().astype(np.float64))
            want = lin["alpha"] * outs[0] + lin["beta"] * outs[1]
            scale = np.abs(outs[0]).max() * abs(lin["alpha"]) + np.abs(outs[1]).max() * abs(
                lin["beta"]) + 1e-30
            err = float(np.abs(outs[2] - want).max() / scale)
            if not err <= 5 * TOL:
                viol("not_linear", f"kernel {lin['kernel']}: R({lin['alpha']}A+{lin['beta']}B) deviates "
                     f"from the combination of R(A), R(B) by {err:.3g}", f"not_linear:{lin['kernel']}")
        # ---- complementary sub-masks recombine with aperture weights
        rc = plan.get("recombine")
        if rc and nb >= 2:
            bump(probes, "recombination_checked")
            nparts = max(2, min(rc.get("parts", 2), nb))
            if nparts > 2:
                bump(probes, "recombination_more_than_two_parts")
            lab = np.asarray([Rng(rc["seed"] + 7 * q).randrange(nparts) for q in range(nb)])
            lab[:nparts] = np.arange(nparts)          # no empty part
            ii_, jj_ = np.nonzero(mask)
            parts = []
            for p_ in range(nparts):
                idx_p = np.nonzero(lab == p_)[0]
                m_p = np.zeros_like(mask)
                m_p[ii_[idx_p], jj_[idx_p]] = True
                parts.append((m_p, idx_p))
            form = rc.get("form", "bool_tensor")
            if form != "bool_tensor":
                bump(probes, "submask_given_as_" + form)

            def spell(m_):
                return {"bool_tensor": lambda: torch.as_tensor(m_), "bool_ndarray": lambda: m_.copy(),
                        "int_tensor": lambda: torch.as_tensor(m_.astype(np.int64)),
                        "float_ndarray": lambda: m_.astype(np.float32)}[form]()
            # (contrast-transfer sign flipping is off: with zero aberrations sign(sin(chi)) is 0
            # everywhere and the parallax result is identically zero)
            full = _make(plan, vbf.copy(), mask).reconstruct(
                deconvolution_kernel=rc["kernel"], parallax_flip_phase=False
            ).corrected_stack.detach().numpy().astype(np.float64)
            a_sum = 0.0
            ok = True
            for m_, idx in parts:
                b = _b(rc["b"], int(m_.sum()))
                r_ = D.reconstruct(bf_mask=spell(m_), deconvolution_kernel=rc["kernel"],
                                   max_batch_size=b, parallax_flip_phase=False
                                   ).corrected_stack.detach().numpy().astype(np.float64)
                f_ = full[idx]
                if r_.shape != f_.shape:
                    viol("submask_mapping", f"{rc['kernel']}: sub-mask result has shape {r_.shape}, "
                         f"expected {f_.shape}", f"submask_mapping:{rc['kernel']}")
                    ok = False
                    break
                if not (np.isfinite(r_).all() and np.isfinite(f_).all()) or np.abs(
                        r_).max() < 1e-12 or np.abs(f_).max() < 1e-12:
                    ok = False  # degenerate (all-zero) reconstruction: nothing to compare
                    break
                a_ = float((f_ * r_).sum() / ((r_ * r_).sum() + 1e-30))
                resid = float(np.abs(f_ - a_ * r_).max() / (np.abs(f_).max() + 1e-30))
                if not resid <= 5 * TOL:
                    viol("submask_mapping", f"{rc['kernel']}: images under the sub-mask are not one "
                         f"constant multiple of the same pixels' images under the full mask "
                         f"(residual {resid:.3g}, factor {a_:.4g})", f"submask_mapping:{rc['kernel']}")
                    ok = False
                    break
                a_sum += a_
            if ok and not abs(a_sum - 1.0) <= 1e-4:
                viol("submask_weights", f"{rc['kernel']}: aperture-weight fractions of complementary "
                     f"sub-masks sum to {a_sum:.6f}, not 1", f"submask_weights:{rc['kernel']}")
            res["steps"] += 3
        # ---- analytic parallax limits (rotation 0)
        if plan.get("analytic"):
            lam = _lam(plan.get("energy", 300e3))
            if abs(lam - float(_make(plan, vbf.copy(), mask, ab={}).wavelength)) > 1e-4 * lam:
                res["obs"]["wavelength_formula_differs"] = 1
            rot_a = float(plan["rot"])
            D0 = _make(plan, vbf.copy(), mask, ab={}, rot=rot_a)
            from quantem.diffractive_imaging.complex_probe import (evaluate_probe, polar_coordinates,
                                                                   spatial_frequencies)

            kxa, kya = spatial_frequencies(D0.gpts, D0.sampling, rotation_angle=rot_a, device="cpu")
            n = plan["grid"]
            kk = np.fft.fftfreq(n, d=1.0 / (n * plan["rs"]))  # independent k-grid (1/A)
            KX0, KY0 = np.meshgrid(kk, kk, indexing="ij")
            # detector pixels expressed in the scan frame: k' = R(+rot) k  (convention pinned to HEAD,
            # like the translation sign; the gradient must be evaluated AT the rotated pixel)
            KX = KX0 * np.cos(rot_a) - KY0 * np.sin(rot_a)
            KY = KX0 * np.sin(rot_a) + KY0 * np.cos(rot_a)
            if rot_a:
                bump(probes, "parallax_with_rotation")
            if np.abs(np.asarray(kxa) - KX).max() > 1e-5 * np.abs(KX).max():
                res["obs"]["kgrid_convention_differs"] = 1
            # aperture weights: soft-edged disc in mrad (independent formula is not attempted: the
            # probe amplitude at the mask pixels is read from the public evaluate_probe)
            kabs, phi = polar_coordinates(kxa, kya)
            pr = evaluate_probe(kabs * D0.wavelength, phi, D0.semiangle_cutoff, D0.angular_sampling,
                                D0.wavelength, aberration_coefs={})
            wts = pr.abs().square().numpy()[mask]
            W = float(wts.sum())
            if np.any((wts > 1e-3) & (wts < 0.999)):
                bump(probes, "fractional_aperture_weight")
            imgs = vbf.astype(np.float64) - vbf.astype(np.float64).mean((1, 2), keepdims=True)
            b = _b(["knob", plan["fill"]], nb)
            got0 = D0.reconstruct(deconvolution_kernel="parallax", parallax_flip_phase=False,
                                  max_batch_size=b).corrected_bf.detach().numpy()
            want0 = imgs.sum(0) / W
            bump(probes, "parallax_zero_aberration")
            e0 = _relerr(got0, want0)
            if not e0 <= 1e-4:
                viol("parallax_zero_aberration_limit", f"zero-aberration parallax deviates from "
                     f"sum(mean-subtracted images)/aperture weight by {e0:.3g}",
                     "parallax_zero_aberration_limit")
            ab = plan["ab"]
            if ab:
                C10 = ab.get("C10", 0.0)
                C12 = ab.get("C12", 0.0)
                p12 = ab.get("phi12", 0.0)
                ii, jj = np.nonzero(mask)
                kx, ky = KX[ii, jj], KY[ii, jj]
                sx = lam * (C10 * kx + C12 * (kx * np.cos(2 * p12) + ky * np.sin(2 * p12)))
                sy = lam * (C10 * ky + C12 * (-ky * np.cos(2 * p12) + kx * np.sin(2 * p12)))
                qx = np.fft.fftfreq(plan["scan"][0], plan.get("ss", [0.5, 0.5])[0])
                qy = np.fft.fftfreq(plan["scan"][1], plan.get("ss", [0.5, 0.5])[1])
                QX, QY = np.meshgrid(qx, qy, indexing="ij")
                want = np.zeros(plan["scan"])
                for q in range(nb):
                    want += np.fft.ifft2(np.fft.fft2(imgs[q]) * np.exp(
                        -2j * np.pi * (QX * sx[q] + QY * sy[q]))).real
                want /= W
                D1 = _make(plan, vbf.copy(), mask, rot=rot_a)
                got1 = D1.reconstruct(deconvolution_kernel="prlx", parallax_flip_phase=False,
                                      max_batch_size=b).corrected_bf.detach().numpy()
                bump(probes, "parallax_defocus_shift")
                e1 = _relerr(got1, want)
                # float32 phase ramps: the error grows with the shift measured in scan pixels (a shift
                # of 20 pixels on a 5-pixel scan is 60 rad of phase at Nyquist); calibrated on HEAD:
                # 1.01e-4 at 5 pixels is the worst of 350 000 thorough runs, 1.3e-4 at 21 pixels;
                # demanded: 2e-4 x max(1, shift / 5 px) (a wrong sign, axis or pixel gives 1e-2 .. 1)
                ssx, ssy = plan.get("ss", [0.5, 0.5])
                s_pix = float(max(np.abs(sx).max() / ssx, np.abs(sy).max() / ssy))
                if s_pix > 5:
                    bump(probes, "parallax_shift_gt_5_pixels")
                if not e1 <= 2e-4 * max(1.0, s_pix / 5.0):
                    viol("parallax_shift_limit", f"aberrations {ab}: parallax deviates from the sum "
                         f"of geometrically shifted images by {e1:.3g}",
                         "parallax_shift_limit:" + ("astig" if C12 else "defocus"))
                # the same statement for an instance built with the library's default mask cropping:
                # "its detector pixel" is the pixel's true position, whatever border the array carries
                cr = plan.get("crop")
                if cr:
                    ms = np.fft.fftshift(mask)
                    i2, j2 = np.nonzero(ms)
                    if min(i2.min(), j2.min()) - cr["pad"] >= 0 and max(i2.max(), j2.max()) + cr[
                            "pad"] < mask.shape[0]:
                        bump(probes, "parallax_limit_on_cropped_instance")
                        D1c = _make(plan, vbf.copy(), mask, rot=rot_a, crop_pad=cr["pad"])
                        got1c = D1c.reconstruct(deconvolution_kernel="prlx", parallax_flip_phase=False,
                                                max_batch_size=b).corrected_bf.detach().numpy()
                        e1c = _relerr(got1c, want)
                        if not e1c <= 2e-4 * max(1.0, s_pix / 5.0):
                            viol("parallax_shift_limit", f"aberrations {ab}, instance built with "
                                 f"crop_bf_mask=True (padding {cr['pad']}, mask {plan.get('mask_kind')} "
                                 f"{mask.shape} -> {tuple(D1c.bf_mask.shape)}): parallax deviates from the "
                                 f"sum of geometrically shifted images by {e1c:.3g}",
                                 "parallax_shift_limit:cropped_mask")
            res["steps"] += 2
    except MemoryError:
        raise HarnessError("injected MemoryError escaped")
    finally:
        fault.disarm()
    if multi[0]:
        res["nontrivial"] = plan_digest({k: plan[k] for k in plan if k != "run_seed"})
    seen, uniq = set(), []
    for v_ in res["violations"]:
        if (v_["oracle"], v_["sig"]) not in seen:
            seen.add((v_["oracle"], v_["sig"]))
            uniq.append(v_)
    res["violations"] = uniq
    res["digest"] = plan_digest([{k: plan[k] for k in plan if k != "run_seed"}, sorted(
        (x["oracle"], x["sig"]) for x in uniq), res["steps"], res["sched"]])
    return res


def plan_size(plan):
    return len(plan["calls"]) + bool(plan.get("linearity")) + bool(plan.get("recombine")) + bool(
        plan.get("analytic"))


def shrink(plan):
    from .. import simhist

    yield from simhist.shrink_history(plan, "calls")
    for key in ("linearity", "recombine", "crop", "ctor4d"):
        if plan.get(key):
            yield {**plan, key: None}
    if plan.get("analytic"):
        yield {**plan, "analytic": False}
    for i, c in enumerate(plan["calls"]):
        for key, val in (("fault", None), ("submask", None), ("up", 1), ("lowpass", None),
                         ("highpass", None)):
            if c.get(key) not in (val, None) or (key == "up" and c["up"] != 1):
                p = copy.deepcopy(plan)
                if val is None and key == "fault":
                    p["calls"][i].pop("fault", None)
                else:
                    p["calls"][i][key] = val
                yield p
    if plan["ab"]:
        yield {**plan, "ab": {}}
    if plan["rot"]:
        yield {**plan, "rot": 0.0}
    if plan["scan"] != [5, 5]:
        yield {**plan, "scan": [5, 5]}
    if plan["grid"] != 7 or plan["radius"] != 1.5:
        yield {**plan, "grid": 7, "radius": 1.5}
