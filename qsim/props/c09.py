"""C09 — mini-batch scheduling: exact partition, batch invariance, seeded determinism.
Engine: E-simsched.  Workloads: A batcher as a scheduler (many configs per run), B batch
invariance of loss and gradient through the real reconstruct() loop, C seeded determinism as
replay (+ exact partition observed through the real loop)."""
from __future__ import annotations

import copy
import hashlib
import math
import os

import numpy as np

from .. import simsched, tinyptycho
from ..core import HarnessError, Rng, Violation, bump, new_result, plan_digest

ID = "C09"
LEVEL = "exploration"
ENGINE = "simsched"
TIERS = {
    "quick": {"runs": 2400, "budget_s": 75, "chunk": 4},
    "thorough": {"runs": 80000, "budget_s": 1500, "chunk": 8},
}
RULE = ("one evaluation = one seeded run of one workload: A) 250 SimpleBatcher configurations "
        "(n 1-400, batch size incl. 1/non-dividing/larger than the set/None, validation ratio incl. "
        "0, tiny, 0.5+-eps, 0.99 and out-of-range, grid/random split, 1-4 epochs) each driven by a "
        "simulator-answered permutation (identity/reverse/rotation/riffle/last-block-first/PRNG) "
        "and checked for exact partition/len/disjoint-cover/split stability, plus generate_batches "
        "tilings; B) a tiny ptychography problem run through the REAL reconstruct() loop for every "
        "divisor batch size with per-batch loss and gradients tapped at fixed parameters (also after "
        "a warm-up of real iterations and with soft constraints on object/probe/dataset); A also "
        "covers n around 2^15/2^16/2^17, 5-9 epochs and tilings of 1e5 items; C) two "
        "instances / one instance before and after reset run with non-dividing batch sizes and a "
        "validation split, loss histories and recorded batch sequences compared, plus the negative "
        "control that another seed gives another schedule; call histories R/C/N, seeds incl. 0, "
        ">= 2^32 and 2^63-1, int or Generator. distinct_nontrivial = distinct "
        "(workload, configuration) digests with >= 2 batches per epoch.")
SCHED_MEASURE = "distinct (permutation kind, n, batch size, split) schedule signatures"
SIM_TIME_NOTE = "no clock in this engine; sim_time_s is 0"
ASSUMPTIONS = [
    "only batch sizes the public batch_size argument can produce are used (no arbitrary partitions)",
    "batch invariance of the LOSS is checked for all five loss types and both gradient paths; of the "
    "GRADIENTS for autograd=True only (autograd=False yields an update direction that every batch "
    "normalises by its own probe overlap, not the gradient of the loss); at fixed parameters (the "
    "optimizer update is skipped by a tap on the public step_optimizers method), also after a "
    "warm-up of real iterations and with soft constraints",
    "float32 tolerance rtol=1e-4 (calibrated: HEAD deviates <= 3e-7)",
]
COMPONENTS_REAL = ["ptycho_utils.SimpleBatcher", "utils.generate_batches/subdivide_batches",
                   "Ptychography.reconstruct loop, error_estimate, backward (autograd), reset_recon, "
                   "RNGMixin", "dataset/object/probe/detector models of the tiny problem"]
COMPONENTS_STUB = ["np.random.Generator.permutation -> SimGenerator where a schedule is explored",
                   "optimizer update in workload B only (StepTap)", "gc.collect in reconstruct"]
EXPECTED_PROBES = ["partial_last_batch", "batch_larger_than_set", "grid_invert_branch",
                   "grid_truncated_to_n_val", "random_split", "n_val_rounds_to_zero", "reset_reseeded",
                   "workload_A", "workload_B", "workload_C", "ratio_out_of_range", "train_empty",
                   "negative_control_differs", "val_split_in_loop", "reset_after_continue",
                   "seed_given_as_generator", "n_beyond_int16", "n_beyond_uint16", "fifth_epoch_or_later",
                   "seed_ge_2_32", "soft_constraints_on", "tapped_after_warmup",
                   "same_seed_in_another_interpreter", "zero_iteration_call_before_reset", "run_aborted_mid_epoch", "seed_given_as_torch_generator"]

_ctx = {}


_SETUP_DONE = []


RULE = RULE + ' Round 16: workload B also with a user-supplied detector mask (beam stop / dead pixels).'


def setup():
    if _SETUP_DONE:
        return
    _SETUP_DONE.append(1)
    m = tinyptycho.setup()
    from quantem.core.utils.utils import generate_batches, subdivide_batches
    from quantem.diffractive_imaging.ptycho_utils import SimpleBatcher

    P = m["Ptychography"]

    class TapPtychography(P):  # type: ignore[misc, valid-type]
        taps = None
        batch_log = None

        def error_estimate(self, *a, **k):
            loss, t = super().error_estimate(*a, **k)
            if self.taps is not None:
                self.taps["loss"].append(float(loss.detach()))
            return loss, t

        def step_optimizers(self):
            if self.taps is None:
                return super().step_optimizers()
            import torch as _t

            go, gp = self.obj_model._obj.grad, self.probe_model._probe.grad
            self.taps["g_obj"].append(go.detach().clone() if go is not None else _t.zeros(1))
            self.taps["g_probe"].append(gp.detach().clone() if gp is not None else _t.zeros(1))

    _ctx.update(m=m, SimpleBatcher=SimpleBatcher, generate_batches=generate_batches,
                subdivide_batches=subdivide_batches, Tap=TapPtychography)
    # warm-up (first reconstruct in a process pays ~4 s of lazy initialisation)
    pt = tinyptycho.make_ptycho(0, cls=TapPtychography)
    pt.reconstruct(num_iters=1, reset=True, optimizer_params=_opt("sgd"), batch_size=None)


def _opt(kind, lr=1e-3):
    return {"object": {"type": kind, "lr": lr}, "probe": {"type": kind, "lr": lr}}


# ------------------------------------------------------------------------------------------
RATIOS = [0.0, 0.0, 0.004, 0.1, 0.25, 0.3, 0.5, 0.4999, 0.5001, 0.75, 0.9, 0.99, 0.28, 1.0, -0.2, 1.7]


def _gen_cons(r):
    w = lambda: r.pick([1e-3, 0.1, 5.0])  # noqa: E731
    return r.pick([{}, {}, {"object": {"tv_weight_xy": w()}}, {"probe": {"tv_weight": w()}},
                   {"object": {"surface_zero_weight": w()}},
                   {"object": {"tv_weight_xy": w(), "tv_weight_z": w()}},
                   {"object": {"tv_weight_xy": w()}, "probe": {"tv_weight": w()}},
                   {"dataset": {"descan_tv_weight": w()}}])


def gen(rng: Rng, tier, i):
    w = rng.weighted([("A", 5), ("B", 2), ("C", 3)])
    if w == "A":
        cfgs = []
        for j in range(250):
            r = rng.fork(("a", j))
            n = r.pick([1, 2, 3, 5, 7, 8, 12, 27, 36, 100, r.randrange(1, 401)])
            b = r.pick([1, 2, 3, n, n + 1, n + 3, max(1, n - 1), None, r.randrange(1, n + 4)])
            cfgs.append({"n": n, "b": b, "shuffle": r.chance(0.8),
                         "ratio": r.pick(RATIOS) if r.chance(0.5) else round(r.uniform(0.0, 0.999), 4),
                         "mode": r.pick(["grid", "random"]), "epochs": r.pick([1, 2, 4]),
                         "kinds": [r.pick(simsched.PERM_KINDS) for _ in range(5)],
                         "seed": r.randrange(10 ** 6),
                         "gb": [r.randrange(1, 60), r.randrange(1, 12), r.randrange(0, 9)]})
            if r.chance(0.1):       # later epochs; tilings of many items from a large start index
                cfgs[-1]["epochs"] = r.pick([5, 6, 9])
                cfgs[-1]["gb"] = [r.pick([255, 256, 1000, 65537, 10 ** 5 + 3]), r.pick([1, 7, 11, 300]),
                                  r.pick([0, 2 ** 31 - 5, 2 ** 33, 10 ** 12])]
        big = rng.fork("big")
        if big.chance(0.5):         # pattern counts around the 16/17-bit index boundaries
            n = big.pick([32767, 32768, 32769, 65535, 65536, 65537, 70001, (1 << 17) + 3])
            cfgs.append({"n": n, "b": big.pick([n, n // 2, 255, 256, 257, 32768, 65536, 1000, None]),
                         "shuffle": big.chance(0.8), "ratio": big.pick([0.0, 0.1, 0.5, 0.75, 0.3333]),
                         "mode": big.pick(["grid", "random"]), "epochs": big.pick([1, 2]),
                         "kinds": [big.pick(simsched.PERM_KINDS) for _ in range(5)],
                         "seed": big.randrange(10 ** 6), "gb": [n, 9, 3]})
        return {"w": "A", "cfgs": cfgs}
    if w == "B":
        return {"w": "B", "data_seed": rng.randrange(1000), "scan": rng.pick([[6, 6], [4, 6], [3, 9]]),
                # a user-supplied detector mask (beam stop / dead pixels): masked pixels must drop out of
                # loss and gradient the same way in every batch (round 16, S-C09p)
                "det_mask": rng.fork("det_mask").pick([None, None, None, "beamstop", "dead"]),
                "loss": rng.pick(["l2_amplitude", "l1_amplitude", "l2_intensity", "l1_intensity", "poisson"]),
                "autograd": rng.fork("autograd").pick([True, True, False]),
                "ratio": rng.pick([0.0, 0.0, 0.25, 0.5]), "mode": rng.pick(["grid", "random"]),
                "obj_type": rng.pick(["complex", "pure_phase", "potential"]),
                "modes": rng.pick([1, 1, 2]), "slices": rng.pick([1, 1, 2]),
                "kinds": [rng.pick(simsched.PERM_KINDS) for _ in range(3)],
                "split_seed": rng.randrange(10 ** 6),
                "keys": rng.pick([["object", "probe"], ["object", "probe"], ["object"], ["probe"],
                                  ["object", "probe", "dataset"]]),
                "tv": rng.pick([0.0, 0.0, 1e-3]),
                # soft constraints (added to every batch loss; must not break batch invariance) and a
                # warm-up of real iterations so that object/probe are no longer the uniform initial guess
                "cons": _gen_cons(rng.fork("cons")), "warm": rng.fork("warm").pick([0, 0, 1, 3])}
    return {"w": "C", "data_seed": rng.randrange(1000), "scan": rng.pick([[6, 6], [5, 7]]),
            "seed": rng.fork("seedval").pick([rng.randrange(10 ** 6)] * 5 + [
                0, 1, 2 ** 32, 2 ** 32 + 7, 2 ** 53 + 1, 2 ** 63 - 1]),
            "b": rng.pick([5, 7, 10, 16, 35, 1, 36, 40]),
            "ratio": rng.pick([0.0, 0.2, 0.25, 0.5]), "mode": rng.pick(["grid", "random"]),
            "iters": rng.pick([2, 3, 4]), "opt": rng.pick(["adam", "sgd"]),
            "variant": rng.pick(["two_instances", "reset_rerun", "both"]),
            # call history on one instance: R = reconstruct(reset=True), C = continue (reset=False),
            # N = first call on a fresh instance without reset
            # Z = a zero-iteration call (configures the run, builds a batcher: draws the random split);
            # A = a run that crashes in the middle of its first epoch (injected)
            "seq": rng.pick([["R", "R"], ["R", "C", "R"], ["N", "R"], ["N", "C", "R"], ["R", "C", "C", "R"],
                             ["R", "R", "C", "R"], ["R", "R", "R"], ["Z", "R"], ["Z", "Z", "R"],
                             ["A", "R"], ["N", "A", "R"], ["Z", "A", "R"], ["R", "A", "R"]]),
            "abort_frac": round(rng.fork("abort").random(), 3),
            "seed_as": rng.pick(["int", "int", "generator", "torch_generator"]), "modes": rng.pick([1, 1, 2]),
            "global_rng": rng.randrange(10 ** 6),
            # the same seeded recipe in ANOTHER interpreter session with another string-hash salt
            # (PYTHONHASHSEED is a source of nondeterminism the seed must make irrelevant)
            "other_interpreter": rng.fork("interp").pick([None] * 23 + [1, 31337])}


# ------------------------------------------------------------------------------------------
def _check_batcher(cfg, res, viol):
    SB = _ctx["SimpleBatcher"]
    probes = res["probes"]
    n, b = cfg["n"], cfg["b"]
    g = simsched.SimGenerator(cfg["seed"], cfg["kinds"])
    tag = f"n={n} b={b} ratio={cfg['ratio']} mode={cfg['mode']} shuffle={cfg['shuffle']}"
    try:
        bt = SB(n, b, shuffle=cfg["shuffle"], rng=g, val_ratio=cfg["ratio"], val_mode=cfg["mode"])
    except Exception as e:
        viol("op_raised", f"SimpleBatcher({tag}) raised {e!r}", f"op_raised:batcher:{type(e).__name__}")
        return None
    train = np.asarray(bt.train_indices).copy()
    val = np.asarray(bt.val_indices).copy()
    r = cfg["ratio"]
    if r < 0 or r >= 1:
        bump(probes, "ratio_out_of_range")
    eff = 0.0 if (r < 0 or r >= 1) else r
    n_val = int(round(n * eff))
    if eff > 0 and n_val == 0:
        bump(probes, "n_val_rounds_to_zero")
    if n_val > 0 and cfg["mode"] == "random":
        bump(probes, "random_split")
    if n_val > 0 and cfg["mode"] == "grid":
        if eff > 0.5:
            bump(probes, "grid_invert_branch")
        else:
            k = max(1, int(round(1.0 / eff)))
            if len(range(0, n, k)) > n_val:
                bump(probes, "grid_truncated_to_n_val")
    # split: disjoint, covering, no duplicates
    allidx = np.concatenate([train, val])
    if len(np.intersect1d(train, val)) or sorted(allidx.tolist()) != list(range(n)):
        viol("split_not_partition", f"{tag}: train={train.tolist()[:12]} val={val.tolist()[:12]}",
             f"split_not_partition:{cfg['mode']}")
        return None
    if eff == 0.0 and len(val):
        viol("split_not_partition", f"{tag}: validation set although ratio is 0/out of range",
             "split_ratio_fallback")
    if len(train) == 0:
        bump(probes, "train_empty")
    if n >= 32768:
        bump(probes, "n_beyond_int16")
    if n >= 65536:
        bump(probes, "n_beyond_uint16")
    if cfg["epochs"] >= 5:
        bump(probes, "fifth_epoch_or_later")
    bs = n if b is None else b
    for ep in range(cfg["epochs"]):
        got = [np.asarray(x).copy() for x in bt]
        flat = np.concatenate(got) if got else np.array([], dtype=int)
        if sorted(flat.tolist()) != sorted(train.tolist()):
            viol("epoch_not_exact_partition", f"{tag} epoch {ep}: visited {sorted(flat.tolist())[:16]} "
                 f"({len(flat)} items), training set has {len(train)}",
                 f"epoch_not_exact_partition:shuffle={cfg['shuffle']}")
            return None
        if len(bt) != len(got):
            viol("len_mismatch", f"{tag}: len(batcher)={len(bt)} but {len(got)} batches yielded",
                 "len_mismatch")
            return None
        if any(len(x) != bs for x in got[:-1]) or (got and not (1 <= len(got[-1]) <= bs)):
            viol("batch_size_violated", f"{tag}: batch sizes {[len(x) for x in got][:10]}",
                 "batch_size_violated")
            return None
        if got and len(got[-1]) < bs and len(got) > 1:
            bump(probes, "partial_last_batch")
        if bs > len(train) and len(train):
            bump(probes, "batch_larger_than_set")
        vb = [np.asarray(x).copy() for x in bt.iter_val()]
        vflat = np.concatenate(vb) if vb else np.array([], dtype=int)
        if sorted(vflat.tolist()) != sorted(val.tolist()) or bt.val_len() != len(vb) or \
                bt.has_validation != (len(val) > 0):
            viol("validation_not_exact", f"{tag}: validation batches cover {len(vflat)} of {len(val)}",
                 "validation_not_exact")
            return None
        if not np.array_equal(bt.train_indices, train) or not np.array_equal(bt.val_indices, val):
            viol("split_changed_between_epochs", f"{tag} epoch {ep}", "split_changed_between_epochs")
            return None
        if not cfg["shuffle"] and not np.array_equal(flat, train):
            viol("unshuffled_order_changed", f"{tag}", "unshuffled_order_changed")
    # contiguous tilings
    gb = cfg["gb"]
    items, nb, start = gb[0], min(gb[1], gb[0]), gb[2]
    for kw in ({"num_batches": nb}, {"max_batch": gb[1]}):
        try:
            rngs = list(_ctx["generate_batches"](items, start_index=start, **kw))
            sizes = _ctx["subdivide_batches"](items, **kw)
        except Exception as e:
            viol("op_raised", f"generate_batches({items}, {kw}) raised {e!r}",
                 f"op_raised:generate_batches:{type(e).__name__}")
            continue
        ok = bool(rngs) and rngs[0][0] == start and rngs[-1][1] == start + items and all(
            a[1] == b_[0] for a, b_ in zip(rngs, rngs[1:])) and all(e > s for s, e in rngs) and \
            sum(sizes) == items
        if "max_batch" in kw:
            ok = ok and all(e - s <= kw["max_batch"] for s, e in rngs)
        else:
            ok = ok and len(rngs) == nb
        if not ok:
            viol("tiling_broken", f"generate_batches({items}, {kw}, start={start}) -> {rngs[:8]}",
                 "tiling_broken:" + next(iter(kw)))
    nbatches = math.ceil(len(train) / bs) if len(train) else 0
    sig = (tuple(cfg["kinds"][:2]), n, bs, cfg["mode"], n_val > 0)
    return sig, nbatches


def _build(plan, rng=42, ratio=None, mode=None, **kw):
    if plan.get("det_mask"):
        kw["dset_opts"] = dict(kw.get("dset_opts") or {}, det_mask=plan["det_mask"])
    pt = tinyptycho.make_ptycho(plan["data_seed"], scan=tuple(plan["scan"]), rng=rng,
                                cls=_ctx["Tap"], **kw)
    if ratio is not None:
        pt.val_ratio = ratio
        pt.val_mode = mode
    return pt


def _rel(a, b):
    import torch

    d = float(torch.linalg.vector_norm((a - b).reshape(-1)))
    s = float(torch.linalg.vector_norm(b.reshape(-1)))
    return d / (s + 1e-30)


def _run_B(plan, res, viol):
    import torch

    bump(res["probes"], "workload_B")
    if plan.get("det_mask"):
        bump(res["probes"], "detector_mask_given")
    if not plan.get("autograd", True):
        bump(res["probes"], "analytic_gradients")
    pt = _build(plan, ratio=plan["ratio"], mode=plan["mode"], obj_type=plan["obj_type"],
                n_modes=plan["modes"], num_slices=plan["slices"])
    keys = plan.get("keys", ["object", "probe"])
    cons = copy.deepcopy(plan.get("cons") or {})
    if plan.get("tv") and not cons:
        cons = {"object": {"tv_weight_xy": plan["tv"]}}
    if cons:
        bump(res["probes"], "soft_constraints_on")
    pt.reconstruct(num_iters=0, reset=True, batch_size=None, constraints=cons,
                   optimizer_params={k_: {"type": "sgd", "lr": 1e-3} for k_ in keys})
    if plan.get("warm"):
        # real iterations (taps off: the optimisers step) with a larger step, so that the object is no
        # longer uniform and every regulariser has a non-zero value and gradient when tapped
        bump(res["probes"], "tapped_after_warmup")
        pt.rng = simsched.SimGenerator(plan["split_seed"], ["random"] + plan["kinds"])
        pt.reconstruct(num_iters=plan["warm"], batch_size=None, loss_type=plan["loss"],
                       autograd=plan.get("autograd", True),
                       optimizer_params={k_: {"type": "sgd", "lr": 5e-2} for k_ in keys})
    ref = None
    sizes = {}
    # the training-set size is only known once a batcher exists: probe it with a full-batch call
    results = {}
    T = None
    order = [None]
    tried = set()
    while order:
        b = order.pop(0)
        if b in tried:
            continue
        tried.add(b)
        pt.rng = simsched.SimGenerator(plan["split_seed"], ["random"] + plan["kinds"])
        pt.taps = {"loss": [], "g_obj": [], "g_probe": []}
        n0 = pt.num_iters
        try:
            pt.reconstruct(num_iters=1, batch_size=b, loss_type=plan["loss"],
                           autograd=plan.get("autograd", True))
        except Exception as e:
            viol("op_raised", f"reconstruct(batch_size={b}) raised {e!r}",
                 f"op_raised:reconstruct:{type(e).__name__}")
            return
        taps, pt.taps = pt.taps, None
        nb = len(taps["g_obj"])
        loss_train = taps["loss"][:nb]
        rec = {"loss": float(np.mean(loss_train)), "g_obj": torch.stack(taps["g_obj"]).mean(0),
               "g_probe": torch.stack(taps["g_probe"]).mean(0), "nb": nb,
               "iter_loss": float(pt.iter_losses[-1])}
        results[b] = rec
        if b is None:
            if nb != 1:
                # what the library does with batch_size=None is its own business, but one epoch over
                # the whole training set in several steps is not a "full batch": report, do not abort
                viol("full_batch_not_one_batch", f"batch_size=None produced {nb} optimisation steps "
                     f"in one epoch", "full_batch_not_one_batch")
                return
            # training-set size from the split the batcher made
            n_all = pt.dset.num_gpts
            eff = plan["ratio"]
            T = n_all - _n_val(n_all, eff, plan["mode"])
            if len(taps["loss"]) > nb:
                bump(res["probes"], "val_split_in_loop")
            order += [d for d in range(1, T) if T % d == 0]
    full = results[None]
    for b, rec in results.items():
        if b is None:
            continue
        if rec["nb"] != T // b:
            viol("batch_count", f"batch_size={b}: {rec['nb']} batches, training set {T}",
                 "batch_count")
            continue
        dl = abs(rec["loss"] - full["loss"]) / (abs(full["loss"]) + 1e-30)
        if dl > 1e-4:
            viol("loss_not_batch_invariant", f"loss={plan['loss']} b={b}: mean of per-batch losses "
                 f"{rec['loss']:.8g} vs full-batch {full['loss']:.8g} (rel {dl:.2e})",
                 f"loss_not_batch_invariant:{plan['loss']}")
        # only models that are being optimised have their gradients zeroed per batch
        # autograd=False does not produce the gradient of the loss but an update direction that each
        # batch normalises by its own probe overlap (ePIE-style preconditioning): the gradient clause
        # is about the loss gradient, the loss clause still applies
        ag = plan.get("autograd", True)
        dg = _rel(rec["g_obj"], full["g_obj"]) if ("object" in keys and ag) else 0.0
        dp = _rel(rec["g_probe"], full["g_probe"]) if ("probe" in keys and ag) else 0.0
        if dg > 1e-4 or dp > 1e-4:
            viol("grad_not_batch_invariant", f"loss={plan['loss']} b={b}: mean per-batch gradient vs "
                 f"full-batch gradient rel. dev obj {dg:.2e} probe {dp:.2e}",
                 f"grad_not_batch_invariant:{plan['loss']}")
        # the reported iteration loss (data term + soft constraints) must not depend on the batch size
        dr = abs(rec["iter_loss"] - full["iter_loss"]) / (abs(full["iter_loss"]) + 1e-30)
        if dr > 1e-4:
            viol("reported_loss_not_batch_invariant", f"b={b}: reported iteration loss "
                 f"{rec['iter_loss']:.8g} vs full-batch {full['iter_loss']:.8g} (constraints={cons})",
                 "reported_loss_not_batch_invariant")
        di = abs(rec["iter_loss"] - rec["loss"]) / (abs(rec["loss"]) + 1e-30)
        if di > 1e-5 and not cons:
            viol("reported_loss_not_mean", f"b={b}: reported iteration loss {rec['iter_loss']:.8g} "
                 f"vs mean of batch losses {rec['loss']:.8g}", "reported_loss_not_mean")
        res["sched"].append(f"B:{plan['kinds'][0]}:{T}:{b}:{plan['mode']}")
    res["nontrivial"] = plan_digest({k: plan[k] for k in plan if k != "run_seed"})
    res["steps"] += sum(r["nb"] for r in results.values())


def _n_val(n, ratio, mode):
    """Size of the validation set SimpleBatcher makes (mirrors its documented rule)."""
    if ratio <= 0 or ratio >= 1:
        return 0
    n_val = int(round(n * ratio))
    if n_val == 0:
        return 0
    if mode == "random":
        return n_val
    if ratio <= 0.5:
        k = max(1, int(round(1.0 / ratio)))
        return min(len(range(0, n, k)), n_val)
    k = max(1, int(round(1.0 / (1.0 - ratio))))
    return n - min(len(range(0, n, k)), n_val)


def _record_batches(pt):
    """Wrap dset.forward on this instance to record the batch index arrays of the real loop."""
    log = []
    orig = pt.dset.forward

    def fwd(batch_indices, *a, **k):
        stop = getattr(pt, "_qsim_abort_after", None)
        if stop is not None and len(log) >= stop:
            raise _Abort(f"injected abort after {stop} batches")     # a crash in the middle of an epoch
        log.append(np.asarray(batch_indices).copy())
        return orig(batch_indices, *a, **k)

    pt.dset.forward = fwd
    return log


class _Abort(RuntimeError):
    pass


def child_first_run(plan):
    """Executed in a fresh interpreter (python -m qsim.c09child): run 1 of workload C."""
    import torch

    np.random.seed((plan.get("global_rng", 0) + 7919) % (2 ** 32))
    torch.manual_seed(plan.get("global_rng", 0) + 104729)
    pt = _build(plan, rng=plan["seed"], ratio=plan["ratio"], mode=plan["mode"],
                n_modes=plan.get("modes", 1))
    if plan.get("seed_as") == "generator":
        pt.rng = np.random.default_rng(plan["seed"])
    elif plan.get("seed_as") == "torch_generator":
        pt.rng = torch.Generator().manual_seed(int(plan["seed"]) % (2 ** 63))
    log = _record_batches(pt)
    pt.reconstruct(reset=True, num_iters=plan["iters"], optimizer_params=_opt(plan["opt"], 1e-3),
                   batch_size=plan["b"])
    return {"losses": [float(x) for x in pt.iter_losses], "val": [float(x) for x in pt.val_iter_losses],
            "seq": [np.asarray(x).tolist() for x in log]}


def _other_interpreter(plan, hashseed):
    import json
    import subprocess
    import sys

    from .. import core

    env = dict(os.environ, PYTHONHASHSEED=str(hashseed), VERIF_REPO=core.REPO,
               PYTHONPATH=core.VERIF_DIR + os.pathsep + os.environ.get("PYTHONPATH", ""))
    out = subprocess.run([sys.executable, "-m", "qsim.c09child"], input=json.dumps(plan), text=True,
                         capture_output=True, env=env, cwd=core.VERIF_DIR, timeout=600)
    lines = [ln for ln in out.stdout.splitlines() if ln.startswith("RESULT ")]
    if out.returncode != 0 or not lines:
        raise HarnessError(f"other-interpreter run failed (rc {out.returncode}): {out.stderr[-400:]}")
    return json.loads(lines[-1][7:])


def _run_C(plan, res, viol):
    bump(res["probes"], "workload_C")
    if plan["seed"] >= 2 ** 32:
        bump(res["probes"], "seed_ge_2_32")
    opt = _opt(plan["opt"], 1e-3)
    kw = dict(num_iters=plan["iters"], optimizer_params=opt, batch_size=plan["b"])

    def fresh(seed):
        import torch

        # nothing may depend on the process-global generators: scramble them differently each time
        scramble[0] += 1
        np.random.seed((plan.get("global_rng", 0) + 7919 * scramble[0]) % (2 ** 32))
        torch.manual_seed(plan.get("global_rng", 0) + 104729 * scramble[0])
        pt = _build(plan, rng=seed, ratio=plan["ratio"], mode=plan["mode"], n_modes=plan.get("modes", 1))
        if plan.get("seed_as") == "generator":
            pt.rng = np.random.default_rng(seed)   # the seed given as a Generator object
        elif plan.get("seed_as") == "torch_generator":
            pt.rng = torch.Generator().manual_seed(int(seed) % (2 ** 63))   # ... as a torch.Generator
        log = _record_batches(pt)
        return pt, log

    scramble = [0]

    def run(pt, log):
        del log[:]
        pt.reconstruct(reset=True, **kw)
        return np.asarray(pt.iter_losses, dtype=float).copy(), np.asarray(
            pt.val_iter_losses, dtype=float).copy(), [x.copy() for x in log]

    def same_seq(a, b):
        return len(a) == len(b) and all(np.array_equal(x, y) for x, y in zip(a, b))

    if plan.get("seed_as") == "generator":
        bump(res["probes"], "seed_given_as_generator")
    if plan.get("seed_as") == "torch_generator":
        bump(res["probes"], "seed_given_as_torch_generator")
    try:
        p1, l1 = fresh(plan["seed"])
        L1, V1, S1 = run(p1, l1)
    except Exception as e:
        viol("op_raised", f"reconstruct raised {e!r}", f"op_raised:reconstruct:{type(e).__name__}")
        return
    n_all = p1.dset.num_gpts
    T = n_all - _n_val(n_all, plan["ratio"], plan["mode"])
    # exact partition observed through the real loop
    per_epoch = math.ceil(T / min(plan["b"], T)) if T else 0
    nvb = math.ceil((n_all - T) / plan["b"]) if n_all > T else 0
    if nvb:
        bump(res["probes"], "val_split_in_loop")
    stride = per_epoch + nvb
    ok = len(S1) == stride * plan["iters"]
    if ok:
        for ep in range(plan["iters"]):
            tr = np.concatenate(S1[ep * stride: ep * stride + per_epoch])
            va = np.concatenate(S1[ep * stride + per_epoch: (ep + 1) * stride]) if nvb else np.array(
                [], dtype=int)
            if len(tr) != T or len(set(tr.tolist())) != T or set(tr.tolist()) & set(va.tolist()) or \
                    sorted(tr.tolist() + va.tolist()) != list(range(n_all)):
                ok = False
    if not ok:
        viol("loop_not_exact_partition", f"b={plan['b']} ratio={plan['ratio']} mode={plan['mode']}: "
             f"the batches seen by the forward model in an epoch are not an exact partition "
             f"({len(S1)} batches for {plan['iters']} epochs, train {T}/{n_all})",
             "loop_not_exact_partition")
    if plan.get("other_interpreter"):
        bump(res["probes"], "same_seed_in_another_interpreter")
        o = _other_interpreter({k: v for k, v in plan.items() if k != "run_seed"},
                               plan["other_interpreter"])
        So = [np.asarray(x, dtype=int) for x in o["seq"]]
        if not same_seq(S1, So):
            viol("seeded_schedule_differs", f"the same seed in another interpreter session "
                 f"(PYTHONHASHSEED={plan['other_interpreter']}) saw a different batch sequence "
                 f"(first batches {S1[0].tolist()[:8]} vs {So[0].tolist()[:8] if So else None})",
                 "seeded_schedule_differs:other_interpreter")
        elif not np.allclose(L1, np.asarray(o["losses"]), rtol=1e-6, atol=0) or not np.allclose(
                V1, np.asarray(o["val"]), rtol=1e-6, atol=0):
            viol("seeded_history_differs", f"the same seed in another interpreter session: losses "
                 f"{L1.tolist()} vs {o['losses']}", "seeded_history_differs:other_interpreter")
    if plan["variant"] in ("two_instances", "both"):
        p2, l2 = fresh(plan["seed"])
        L2, V2, S2 = run(p2, l2)
        if not same_seq(S1, S2):
            viol("seeded_schedule_differs", "two instances with the same seed saw different batch "
                 "sequences", "seeded_schedule_differs:two_instances")
        elif not np.allclose(L1, L2, rtol=1e-6, atol=0) or not np.allclose(V1, V2, rtol=1e-6, atol=0):
            viol("seeded_history_differs", f"two instances with the same seed: losses {L1.tolist()} "
                 f"vs {L2.tolist()}", "seeded_history_differs:two_instances")
    if plan["variant"] in ("reset_rerun", "both"):
        # a history of calls on ONE fresh instance; every run that starts from the initial state
        # (first call without reset, or any call with reset=True) must reproduce run 1
        p3, l3 = fresh(plan["seed"])
        hist = []
        for q, c in enumerate(plan.get("seq", ["R", "R"])):
            del l3[:]
            if c == "C":
                p3.reconstruct(num_iters=1, batch_size=plan["b"])
                hist.append("C")
                continue
            if c == "Z":
                p3.reconstruct(num_iters=0, batch_size=plan["b"], optimizer_params=opt)
                bump(res["probes"], "zero_iteration_call_before_reset")
                hist.append("Z")
                continue
            if c == "A":
                p3._qsim_abort_after = int(plan.get("abort_frac", 0.5) * max(1, stride - 1))
                try:
                    p3.reconstruct(reset=(q > 0), **kw)
                    aborted = False
                except _Abort:
                    aborted = True
                finally:
                    p3._qsim_abort_after = None
                if aborted:
                    bump(res["probes"], "run_aborted_mid_epoch")
                    bump(res["faults"], "abort_mid_epoch")
                hist.append("A")
                continue
            if c == "N" and q == 0:
                p3.reconstruct(reset=False, **kw)
            else:
                p3.reconstruct(reset=True, **kw)
                bump(res["probes"], "reset_reseeded")
            hist.append(c)
            L3 = np.asarray(p3.iter_losses, dtype=float).copy()
            V3 = np.asarray(p3.val_iter_losses, dtype=float).copy()
            S3 = [x.copy() for x in l3]
            if c == "R" and "C" in hist[:-1]:
                bump(res["probes"], "reset_after_continue")
            if not same_seq(S1, S3):
                viol("seeded_schedule_differs", f"call history {hist} on one instance: this run "
                     "started from the initial state but saw a different batch sequence than the "
                     "first run from the same seed",
                     "seeded_schedule_differs:" + ("reset_after_continue" if "C" in hist else
                                                   "reset" if c == "R" else "first_call"))
                break
            if len(L3) != len(L1) or not np.allclose(L1, L3, rtol=1e-6, atol=0) or not np.allclose(
                    V1, V3, rtol=1e-6, atol=0):
                viol("seeded_history_differs", f"call history {hist}: losses {L1.tolist()} vs "
                     f"{L3.tolist()}", "seeded_history_differs:" + (
                         "reset_after_continue" if "C" in hist else "reset" if c == "R" else
                         "first_call"))
                break
    # negative control: another seed must give another schedule (when a shuffle has freedom)
    if per_epoch >= 2 or (plan["mode"] == "random" and n_all > T):
        p4, l4 = fresh(plan["seed"] + 1)
        _, _, S4 = run(p4, l4)
        if same_seq(S1, S4):
            res["obs"]["negative_control_same_schedule"] = 1
        else:
            bump(res["probes"], "negative_control_differs")
    res["sched"].append(f"C:{T}:{plan['b']}:{plan['mode']}:{plan['variant']}")
    if per_epoch >= 2:
        res["nontrivial"] = plan_digest({k: plan[k] for k in plan if k != "run_seed"})
    res["steps"] += len(S1)


def run(plan):
    res = new_result()

    def viol(oracle, detail, sig):
        res["violations"].append(Violation(oracle, detail, sig))

    if plan["w"] == "A":
        bump(res["probes"], "workload_A")
        nt = []
        for j, cfg in enumerate(plan["cfgs"]):
            before = len(res["violations"])
            out = _check_batcher(cfg, res, viol)
            for v in res["violations"][before:]:
                v["narrow"] = {"cfgs": [cfg]}
            if out:
                sig, nb = out
                res["sched"].append("A:" + hashlib.blake2b(repr(sig).encode(), digest_size=5).hexdigest())
                if nb >= 2:
                    nt.append(plan_digest(cfg))
            res["steps"] += 1
        res["nontrivial"] = nt
    elif plan["w"] == "B":
        _run_B(plan, res, viol)
    else:
        _run_C(plan, res, viol)
    seen, uniq = set(), []
    for v_ in res["violations"]:
        if (v_["oracle"], v_["sig"]) not in seen:
            seen.add((v_["oracle"], v_["sig"]))
            uniq.append(v_)
    res["violations"] = uniq
    res["digest"] = plan_digest([{k: plan[k] for k in plan if k != "run_seed"}, sorted(
        (x["oracle"], x["sig"]) for x in uniq), res["steps"], sorted(set(res["sched"]))])
    return res


def plan_size(plan):
    return len(plan.get("cfgs", [1]))


def shrink(plan):
    if plan["w"] == "A":
        cfgs = plan["cfgs"]
        if len(cfgs) > 1:
            for i in range(len(cfgs)):
                yield {**plan, "cfgs": [cfgs[i]]}
            return
        c = cfgs[0]
        for key, vals in (("n", [1, 2, 3, 4, 5, 8, c["n"] // 2]), ("epochs", [1]), ("ratio", [0.0, 0.5]),
                          ("b", [1, 2, 3, None]), ("shuffle", [False]), ("mode", ["grid"])):
            for v in vals:
                if v != c[key] and (key != "n" or (v >= 1 and v < c["n"])):
                    c2 = dict(c)
                    c2[key] = v
                    yield {**plan, "cfgs": [c2]}
        if c["kinds"] != ["identity"] * 5:
            c2 = dict(c)
            c2["kinds"] = ["identity"] * 5
            yield {**plan, "cfgs": [c2]}
    else:
        simple = {"B": {"ratio": 0.0, "mode": "grid", "obj_type": "complex", "modes": 1, "slices": 1,
                        "scan": [4, 6], "loss": "l2_amplitude"},
                  "C": {"ratio": 0.0, "mode": "grid", "iters": 2, "opt": "sgd", "scan": [5, 7],
                        "variant": "two_instances", "seq": ["R", "R"]}}[plan["w"]]
        for k, v in simple.items():
            if plan.get(k) != v:
                p = copy.deepcopy(plan)
                p[k] = v
                yield p
