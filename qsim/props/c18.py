"""C18 — centre-of-mass origin estimation: exact, path-independent, batch-invariant.
Engine: E-simsched (batch-size knob, allocation failure + retry, history on one model instance)."""
from __future__ import annotations

import copy

import numpy as np

from .. import simsched
from ..core import HarnessError, Rng, Violation, bump, new_result, plan_digest

ID = "C18"
LEVEL = "exploration"
ENGINE = "simsched"
TIERS = {
    "quick": {"runs": 30000, "budget_s": 75, "chunk": 50},
    "thorough": {"runs": 1500000, "budget_s": 1500, "chunk": 200},
}
RULE = ("one evaluation = one seeded 4-D dataset (non-square scan 2-5 x 2-6, occasionally up to 16x17; "
        "detector 3-9 x 3-9, occasionally 16-65; strictly positive asymmetric patterns; float32/64 "
        "scaled by 2^-70..2^60, uint8/uint16/int32 counts up to 3e8; C/Fortran/strided/swapped-axes "
        "memory layout; unit or non-unit calibration) and a history of 4-9 calls on ONE "
        "CenterOfMassOriginModel (calculate_origin / fit_origin_background / shift_origin_to with "
        "batch sizes from the knob {1,2,n-1,n,n+1,divisor,non-divisor,None}, injected MemoryError "
        "after j batches followed by a retry with a smaller batch, planted plane/constant origins, "
        "planted integer origins incl. values outside the detector and nearest/bicubic modes, planes "
        "over explicit scaled/offset/jittered/permuted probe positions) plus the ptychography dataset model preprocessed with the "
        "vectorised and the looped path on the same data and ptycho_utils.fit_origin on planted "
        "surfaces, and detector masks (bool/float/int/hole) through _set_intensities_com on both "
        "paths; every result is compared with a float64 NumPy reference. distinct_nontrivial = "
        "distinct (data, history) digests with >= 2 different batch sizes.")
SCHED_MEASURE = "distinct (num patterns, batch size, fault position) schedule signatures"
SIM_TIME_NOTE = "no clock in this engine; sim_time_s is 0"
ASSUMPTIONS = [
    "float32 tolerance: 2e-5 relative to the detector size for centres of mass, 1e-4 for fitted "
    "surfaces, 1e-5 x max intensity for integer shifts (HEAD deviates <= 5e-7)",
    "scan grids have at least 2x2 positions (a plane through collinear positions is undetermined); "
    "planted planes have moderate slopes (|slope| <= 0.5 px per position)",
    "detector masks enter through the public preprocessing only (the dataset model's looped path "
    "takes no mask from preprocess())",
]
COMPONENTS_REAL = ["origin_models.CenterOfMassOriginModel (calculate_origin, fit_origin_background, "
                   "shift_origin_to)", "dataset_models.PtychographyDatasetRaster.preprocess -> "
                   "_set_intensities_com (vectorised and looped)", "ptycho_utils.fit_origin",
                   "ptycho_utils.SimpleBatcher (real, wrapped)"]
COMPONENTS_STUB = ["SimpleBatcher in origin_models -> FailingBatcher subclass (identical behaviour + "
                   "armed MemoryError)"]
EXPECTED_PROBES = ["alloc_fault_fired", "retry_after_alloc_error", "batch_size_1", "batch_nondivisor",
                   "batch_larger_than_n", "planted_plane", "planted_constant", "integer_shift",
                   "looped_path", "vectorised_path", "nonsquare_detector", "nonsquare_scan",
                   "fit_origin_plane", "history_reuse_after_shift", "intensity_scale_tiny",
                   "intensity_scale_huge", "counts_beyond_float32_integers", "detector_side_ge_16",
                   "more_than_64_patterns", "layout_F", "layout_strided", "layout_swapped",
                   "nonunit_calibration", "integer_origin_outside_detector", "origin_given_noncontiguous",
                   "shift_mode_nearest", "shift_mode_bicubic", "planted_plane_explicit_positions",
                   "detector_mask_bool", "detector_mask_float", "detector_mask_int", "detector_mask_hole",
                   "forward_workflow", "forward_with_explicit_positions", "batch_size_numpy_int",
                   "raster_fit_parabola", "raster_fit_no_shift", "fit_origin_parabola_on_plane"]

_ctx = {}


_SETUP_DONE = []


RULE = RULE + ' Round 16: torch.set_float32_matmul_precision (highest/high/medium) is an environment knob of the run, drawn together with larger scans and detectors.'


def setup():
    if _SETUP_DONE:
        return
    _SETUP_DONE.append(1)
    from .. import core

    core.use_repo()
    import warnings

    warnings.filterwarnings("ignore")
    import torch

    torch.set_num_threads(1)
    import quantem.diffractive_imaging.origin_models as om
    from quantem.core.datastructures.dataset4dstem import Dataset4dstem
    from quantem.diffractive_imaging.dataset_models import PtychographyDatasetRaster
    from quantem.diffractive_imaging.ptycho_utils import fit_origin

    if not hasattr(om, "SimpleBatcher"):
        raise HarnessError("origin_models lost its module-level SimpleBatcher name")
    fault = simsched.AllocFault()
    om.SimpleBatcher = simsched.make_failing_batcher(om.SimpleBatcher, fault)
    _ctx.update(torch=torch, om=om, D4=Dataset4dstem, Raster=PtychographyDatasetRaster,
                fit_origin=fit_origin, fault=fault)


def gen(rng: Rng, tier, i):
    scan = [rng.pick([2, 3, 4, 5]), rng.pick([2, 3, 4, 6])]
    det = [rng.pick([3, 4, 5, 6, 8, 9]), rng.pick([3, 4, 5, 7, 8])]
    big = rng.fork("big")
    if big.chance(0.06):      # sizes beyond the usual small ones: power-of-two / >= 16 detector sides,
        det = [big.pick([16, 17, 32, 33, 64]), big.pick([16, 24, 32, 65])]   # more than 64/128 patterns
    if big.chance(0.06):
        scan = [big.pick([8, 9, 12, 16]), big.pick([9, 11, 16, 17])]
    # process-global numeric state of torch is part of the environment (like warning filters for the
    # serializer): torch.set_float32_matmul_precision('high'/'medium') lets float32 matrix products run
    # in reduced precision. The centre of mass is a weighted mean, not something a user expects that
    # switch to touch - and batch invariance must hold under it (round 16, S-C18p)
    mm = rng.fork("matmul")
    matmul = mm.pick(["highest"] * 5 + ["high", "medium", "medium"])
    if matmul != "highest" and mm.chance(0.5):
        det = [mm.pick([32, 33, 48, 64]), mm.pick([32, 40, 65])]
        scan = [mm.pick([8, 9, 12, 16]), mm.pick([9, 11, 16, 17])]
    n = scan[0] * scan[1]
    ops = []
    for j in range(rng.pick([4, 6, 9])):
        r = rng.fork(("op", j))
        k = r.weighted([("calc", 4), ("fit", 2), ("shift", 2), ("plant_plane", 2), ("plant_const", 1),
                        ("plant_int", 3), ("plant_plane_pos", 1.5), ("forward", 1.5)])
        b = simsched.batch_size_knob(r, n)
        op = {"op": k, "b": b}
        if k in ("calc", "shift", "plant_int") and r.chance(0.3):
            nb = max(1, -(-n // (b or n)))
            op["fault"] = {"after": r.randrange(0, nb), "retry_b": max(1, (b or n) // 2)}
        if k == "fit":
            op["method"] = r.pick(["plane", "constant"])
        if k in ("shift", "plant_int"):
            op["coord"] = [r.pick([0, 0, 1, 2]), r.pick([0, 0, 1, 3])]
        if k == "plant_plane":
            op["coef"] = [[round(r.uniform(-0.5, 0.5), 3), round(r.uniform(-0.5, 0.5), 3),
                           round(r.uniform(1, 4), 3)] for _ in range(2)]
            op["via"] = r.pick(["model", "fit_origin"])
        if k == "plant_const":
            op["c"] = [round(r.uniform(0, 5), 3), round(r.uniform(0, 5), 3)]
        if k == "plant_int":
            op["seed"] = r.randrange(10 ** 6)
            x = r.fork("ext")
            op["mode"] = x.pick(["bilinear", "bilinear", "bilinear", "nearest", "bicubic"])
            op["wrap"] = x.chance(0.3)       # integer origins outside [0, size): several wraps
            op["noncontig"] = x.chance(0.2)  # origins handed over as a non-contiguous tensor
        if k == "forward":
            # the one-call workflow must equal the step-by-step calls with the same arguments
            x = r.fork("fw")
            op.update(method=x.pick(["plane", "plane", "constant"]), coord=[x.pick([0, 0, 1]), x.pick([0, 0, 2])],
                      mode=x.pick(["bilinear", "bilinear", "nearest"]), fit=x.chance(0.85),
                      shift=x.chance(0.8), pos=x.pick([None, None, "affine", "jitter", "serpentine", "permuted"]),
                      seed=x.randrange(10 ** 6), kw=x.chance(0.5))
        if k == "plant_plane_pos":
            # a plane over EXPLICIT probe positions (scaled, offset, jittered, permuted)
            op["coef"] = [[round(r.uniform(-0.5, 0.5), 3), round(r.uniform(-0.5, 0.5), 3),
                           round(r.uniform(1, 4), 3)] for _ in range(2)]
            op["scale"] = [r.pick([1.0, 2.5, 0.7]), r.pick([1.0, 0.4, 3.0])]
            op["offset"] = [r.pick([0.0, 10.0, -3.0]), r.pick([0.0, -7.5])]
            op["jitter"] = r.pick([0.0, 0.0, 0.3])
            op["permute"] = r.chance(0.5)
            op["as"] = r.pick(["numpy", "tensor", "noncontig"])
            op["seed"] = r.randrange(10 ** 6)
        ops.append(op)
    return {"scan": scan, "det": det, "fill": rng.randrange(10 ** 6), "ops": ops, "matmul": matmul,
            "dtype": rng.pick(["float32", "float32", "float64", "uint16", "int32", "uint8"]),
            # intensity scale 2**e (exact in binary floating point): the centre of mass is scale-free
            "scale_e": rng.fork("scale").pick([0, 0, 0, 0, -70, -50, -30, -12, -3, 7, 24, 40, 60]),
            "count_mul": rng.fork("count_mul").pick([1, 1, 1, 37, 4096, 1 << 19]),
            # memory layout of the 4-D array, calibration of the dataset (results stay in pixels)
            "layout": rng.fork("layout").pick(["C", "C", "C", "F", "strided", "swapped"]),
            "calib": rng.fork("calib").pick(["unit", "unit", "scaled"]),
            # detector mask for the dataset model's centre of mass (None / bool / float weights / int)
            "dp_mask": rng.fork("dpmask").pick([None, None, "bool", "float", "int", "hole"]),
            "mask_seed": rng.randrange(10 ** 6),
            "raster": rng.chance(0.35),
            "raster_fit": rng.pick(["constant", "plane", "none", "parabola", "no_shift"])}


def _data(plan):
    g = np.random.Generator(np.random.PCG64(plan["fill"]))
    sx, sy = plan["scan"]
    H, W = plan["det"]
    a = g.uniform(0.05, 1.0, (sx, sy, H, W))
    for i in range(sx):
        for j in range(sy):
            a[i, j, g.integers(0, H), g.integers(0, W)] += g.uniform(3, 10)
    dt = plan.get("dtype", "float32")
    if dt in ("uint16", "int32", "uint8"):
        cnt = np.round(a * 50 + 1)               # positive integer counts
        if dt == "int32":
            cnt = cnt * plan.get("count_mul", 1)  # up to ~2.9e8: beyond float32's exact integers
        elif dt == "uint16" and plan.get("count_mul", 1) > 1:
            cnt = cnt * 100                       # up to 55 100: a uint16 sum over the pattern overflows
        elif dt == "uint8":
            cnt = np.round(a * 20 + 1)            # up to 221: a uint8 sum overflows at once
        return cnt.astype(dt)
    return (a.astype(dt) * dt_scale(dt, plan.get("scale_e", 0))).astype(dt)


def dt_scale(dt, e):
    return np.dtype(dt).type(2.0) ** np.dtype(dt).type(e)


def _lay(a, layout):
    """Same values in another memory layout (Fortran order, a strided view, swapped-back axes)."""
    if layout == "F":
        return np.asfortranarray(a)
    if layout == "strided":
        w = np.zeros(a.shape[:-1] + (2 * a.shape[-1],), dtype=a.dtype)
        w[..., ::2] = a
        return w[..., ::2]
    if layout == "swapped":
        return np.swapaxes(np.ascontiguousarray(np.swapaxes(a, 0, 1)), 0, 1)
    return a.copy()


def _dp_mask(plan):
    kind = plan.get("dp_mask")
    if not kind:
        return None
    H, W = plan["det"]
    g = np.random.Generator(np.random.PCG64(plan.get("mask_seed", 0)))
    if kind == "float":
        return g.uniform(0.1, 1.0, (H, W))
    m = g.uniform(0, 1, (H, W)) < 0.7
    if kind == "hole":
        m[:] = True
        m[g.integers(0, H), g.integers(0, W)] = False
    if not m.any():
        m[0, 0] = True
    m[g.integers(0, H), :] = True      # keeps every masked total positive
    return m.astype({"bool": bool, "hole": bool, "int": np.int64}[kind])


def _ref_com(a):
    a64 = a.astype(np.float64)
    H, W = a.shape[-2:]
    r = np.arange(H)[:, None]
    c = np.arange(W)[None, :]
    s = a64.sum((-2, -1))
    return (a64 * r).sum((-2, -1)) / s, (a64 * c).sum((-2, -1)) / s


def _same_bits(x, y):
    """NaN-safe tensor identity (bit patterns)."""
    return x.shape == y.shape and x.dtype == y.dtype and bytes(
        x.detach().contiguous().numpy().tobytes()) == bytes(y.detach().contiguous().numpy().tobytes())


def run(plan):
    torch = _ctx["torch"]
    old = torch.get_float32_matmul_precision()
    torch.set_float32_matmul_precision(plan.get("matmul", "highest"))
    try:
        res = _run(plan)
    finally:
        torch.set_float32_matmul_precision(old)
    if plan.get("matmul", "highest") != "highest":
        bump(res["probes"], "reduced_float32_matmul_precision")
    return res


def _run(plan):
    torch = _ctx["torch"]
    fault = _ctx["fault"]
    res = new_result()
    probes = res["probes"]

    def viol(oracle, detail, sig):
        res["violations"].append(Violation(oracle, detail, sig))

    a = _data(plan)
    sx, sy = plan["scan"]
    H, W = plan["det"]
    n = sx * sy
    if H != W:
        bump(probes, "nonsquare_detector")
    if sx != sy:
        bump(probes, "nonsquare_scan")
    if a.dtype.kind == "f" and plan.get("scale_e", 0) <= -30:
        bump(probes, "intensity_scale_tiny")
    if a.dtype.kind == "f" and plan.get("scale_e", 0) >= 24:
        bump(probes, "intensity_scale_huge")
    if a.dtype.kind == "i" and plan.get("count_mul", 1) >= 4096:
        bump(probes, "counts_beyond_float32_integers")
    if max(H, W) >= 16:
        bump(probes, "detector_side_ge_16")
    if n > 64:
        bump(probes, "more_than_64_patterns")
    ref_r, ref_c = _ref_com(a)
    ref = np.stack([ref_r.ravel(), ref_c.ravel()], -1)
    tol = 2e-5 * max(H, W)
    fault.disarm()
    lay = plan.get("layout", "C")
    if lay != "C":
        bump(probes, "layout_" + lay)
    cal = dict(sampling=(1.0, 1.0, 0.05, 0.05), units=("A", "A", "A^-1", "A^-1"))
    if plan.get("calib") == "scaled":
        bump(probes, "nonunit_calibration")
        cal = dict(sampling=(2.0, 0.5, 0.05, 0.1), origin=(1.0, -2.0, 3.0, 4.5),
                   units=("A", "A", "A^-1", "A^-1"))
    d4 = _ctx["D4"].from_array(_lay(a, lay), **cal)
    try:
        model = _ctx["om"].CenterOfMassOriginModel.from_dataset(d4)
    except Exception as e:
        viol("op_raised", f"from_dataset raised {e!r}", f"op_raised:from_dataset:{type(e).__name__}")
        res["digest"] = plan_digest(plan)
        return res
    bsizes = set()
    have_measured = False
    have_fitted = False
    shifted_once = False

    def call(tag, fn, op):
        """Run fn(b) with the op's armed allocation fault, then retry with a smaller batch."""
        b = op["b"]
        bs = b if b is not None else n
        bsizes.add(bs)
        if bs == 1:
            bump(probes, "batch_size_1")
        if bs > n:
            bump(probes, "batch_larger_than_n")
        if n % bs and bs < n:
            bump(probes, "batch_nondivisor")
        if b is not None and (b + len(plan["ops"])) % 4 == 0:
            b = np.int64(b)            # a batch size computed with NumPy
            bump(probes, "batch_size_numpy_int")
        f = op.get("fault")
        if f:
            before_m = None if model.origin_measured is None else model.origin_measured.clone()
            before_s = None if model.shifted_tensor is None else model.shifted_tensor.clone()
            fault.arm(0, f["after"])
            try:
                fn(b)
                fault.disarm()
            except MemoryError:
                bump(probes, "alloc_fault_fired")
                bump(res["faults"], "alloc_error")
                fault.disarm()
                # the failed call must not have changed what the instance publishes
                am = model.origin_measured
                if (before_m is None) != (am is None) or (before_m is not None and not _same_bits(
                        before_m, am)):
                    viol("failed_call_changed_state", f"{tag}: origin_measured changed by a call that "
                         "raised MemoryError", f"failed_call_changed_state:{op['op']}:origin")
                as_ = model.shifted_tensor
                if (before_s is None) != (as_ is None) or (before_s is not None and not _same_bits(
                        before_s, as_)):
                    viol("failed_call_changed_state", f"{tag}: shifted_tensor changed by a call that "
                         "raised MemoryError", f"failed_call_changed_state:{op['op']}:shifted")
                bump(probes, "retry_after_alloc_error")
                fn(f["retry_b"])
                bsizes.add(f["retry_b"])
            res["sched"].append(f"{n}:{bs}:f{f['after']}")
        else:
            fn(b)
            res["sched"].append(f"{n}:{bs}")
        res["steps"] += 1

    try:
        for j, op in enumerate(plan["ops"]):
            k = op["op"]
            tag = f"op#{j}:{k}(b={op['b']})"
            if k == "calc":
                call(tag, lambda b: model.calculate_origin(b), op)
                got = model.origin_measured.detach().numpy().astype(np.float64)
                if got.shape != ref.shape:
                    viol("com_shape", f"{tag}: origin_measured shape {got.shape}", "com_shape")
                    break
                err = np.abs(got - ref).max()
                if not err <= tol:
                    sw = np.abs(got[:, ::-1] - ref).max()
                    viol("com_mismatch", f"{tag} scan={plan['scan']} det={plan['det']}: max |model - "
                         f"float64 reference| = {err:.3g} px (swapped row/col: {sw:.3g}); after "
                         f"{'a shift ' if shifted_once else ''}history of {j} calls",
                         "com_mismatch:origin_model" + (":swapped" if sw <= tol else ""))
                have_measured = True
                if shifted_once:
                    bump(probes, "history_reuse_after_shift")
            elif k == "fit":
                if not have_measured:
                    continue
                model.fit_origin_background(fit_method=op["method"])
                have_fitted = True
            elif k == "shift":
                if not have_fitted:
                    continue
                call(tag, lambda b: model.shift_origin_to(tuple(op["coord"]), b), op)
                shifted_once = True
                if tuple(model.shifted_tensor.shape) != a.shape:
                    viol("shift_shape", f"{tag}: shifted tensor shape {tuple(model.shifted_tensor.shape)}",
                         "shift_shape")
            elif k == "plant_plane":
                bump(probes, "planted_plane")
                xs, ys = np.meshgrid(np.arange(sx), np.arange(sy), indexing="ij")
                planes = [c[0] * xs + c[1] * ys + c[2] for c in op["coef"]]
                if op["via"] == "fit_origin":
                    bump(probes, "fit_origin_plane")
                    fr, fc, rr, rc_ = _ctx["fit_origin"](
                        data=(planes[0].astype(float), planes[1].astype(float)),
                        fit_function="plane", mask=np.ones((sx, sy), dtype=bool))  # as the library calls it
                    err = max(np.abs(fr - planes[0]).max(), np.abs(fc - planes[1]).max())
                    if not err <= 1e-4:
                        viol("planted_surface_not_recovered", f"{tag}: fit_origin(plane) deviates "
                             f"{err:.3g}", "planted_surface:fit_origin:plane")
                    # the caller's arrays are inputs: no fit function may change them; an exact surface
                    # of the family (here a plane, which every higher-order family contains) comes back
                    for ff in ("plane", "constant", "parabola"):
                        if ff == "parabola" and (n < 7 or min(sx, sy) < 3):
                            continue      # x**2 == x on a side of length 2: the family is degenerate
                        d0 = (planes[0].astype(float).copy(), planes[1].astype(float).copy())
                        keep0 = (d0[0].copy(), d0[1].copy())
                        try:
                            fr2, fc2, _, _ = _ctx["fit_origin"](data=d0, fit_function=ff,
                                                               mask=np.ones((sx, sy), dtype=bool))
                        except Exception as e:
                            viol("op_raised", f"{tag}: fit_origin({ff}) raised {e!r}",
                                 f"op_raised:fit_origin:{ff}")
                            continue
                        if not (np.array_equal(d0[0], keep0[0]) and np.array_equal(d0[1], keep0[1])):
                            viol("input_mutated", f"{tag}: fit_origin(fit_function={ff!r}) modified the "
                                 "caller's data arrays", f"input_mutated:fit_origin:{ff}")
                        if ff == "parabola":
                            bump(probes, "fit_origin_parabola_on_plane")
                            e2 = max(np.abs(fr2 - planes[0]).max(), np.abs(fc2 - planes[1]).max())
                            if not e2 <= 1e-4:
                                viol("planted_surface_not_recovered", f"{tag}: fit_origin(parabola) on an "
                                     f"exact plane deviates {e2:.3g}", "planted_surface:fit_origin:parabola")
                    fr, fc, _, _ = _ctx["fit_origin"](
                        data=(np.full((sx, sy), op["coef"][0][2]), np.full((sx, sy), op["coef"][1][2])),
                        fit_function="constant")
                    if np.abs(fr - op["coef"][0][2]).max() > 1e-9 or np.abs(
                            fc - op["coef"][1][2]).max() > 1e-9:
                        viol("planted_surface_not_recovered", f"{tag}: fit_origin(constant)",
                             "planted_surface:fit_origin:constant")
                else:
                    planted = np.stack([p.ravel() for p in planes], -1).astype(np.float32)
                    model.origin_measured = torch.from_numpy(planted.copy())
                    model.fit_origin_background(fit_method="plane")
                    got = model.origin_fitted.detach().numpy()
                    err = np.abs(got - planted).max()
                    if not err <= 1e-4 * max(1.0, np.abs(planted).max()):
                        viol("planted_surface_not_recovered", f"{tag}: plane fit deviates {err:.3g} "
                             f"from the planted plane {op['coef']}", "planted_surface:model:plane")
                    have_measured = have_fitted = True
                    have_measured = False  # the planted origins are not the data's
            elif k == "plant_const":
                bump(probes, "planted_constant")
                planted = np.tile(np.asarray(op["c"], dtype=np.float32), (n, 1))
                model.origin_measured = torch.from_numpy(planted.copy())
                for method in ("constant", "plane"):
                    model.fit_origin_background(fit_method=method)
                    got = model.origin_fitted.detach().numpy()
                    err = np.abs(got - planted).max()
                    if not err <= 1e-4:
                        viol("planted_surface_not_recovered", f"{tag}: {method} fit of a constant "
                             f"deviates {err:.3g}", f"planted_surface:model:constant_via_{method}")
                have_fitted = True
                have_measured = False
            elif k == "plant_int":
                bump(probes, "integer_shift")
                g = np.random.Generator(np.random.PCG64(op["seed"]))
                if op.get("wrap"):
                    bump(probes, "integer_origin_outside_detector")
                    org = np.stack([g.integers(-H, 2 * H, n), g.integers(-W, 2 * W, n)], -1)
                else:
                    org = np.stack([g.integers(0, H, n), g.integers(0, W, n)], -1)
                if op.get("noncontig"):
                    bump(probes, "origin_given_noncontiguous")
                    model.origin_fitted = torch.from_numpy(
                        np.ascontiguousarray(org.T.astype(np.float32))).T
                else:
                    model.origin_fitted = torch.from_numpy(org.astype(np.float32))
                have_fitted = True
                coord = op["coord"]
                mode = op.get("mode", "bilinear")
                if mode != "bilinear":
                    bump(probes, "shift_mode_" + mode)
                call(tag, lambda b: model.shift_origin_to(tuple(coord), b, mode), op)
                shifted_once = True
                got = model.shifted_tensor.detach().numpy().reshape(n, H, W)
                src = a.reshape(n, H, W).astype(np.float64)
                worst = 0.0
                for q in range(n):
                    want = np.roll(src[q], (-(org[q, 0] - coord[0]), -(org[q, 1] - coord[1])), (0, 1))
                    worst = max(worst, float(np.abs(got[q] - want).max()))
                if not worst <= 1e-5 * float(a.max()):
                    viol("integer_shift_not_roll", f"{tag} det={plan['det']} coord={coord} mode={mode}: "
                         f"max deviation from np.roll {worst:.3g}", "integer_shift_not_roll" + (
                             "" if mode == "bilinear" else ":" + mode))
            elif k == "forward":
                bump(probes, "forward_workflow")
                g = np.random.Generator(np.random.PCG64(op["seed"]))
                xs, ys = np.meshgrid(np.arange(sx), np.arange(sy), indexing="ij")
                pos = None
                if op["pos"] and op["fit"]:
                    P = np.stack([xs.ravel(), ys.ravel()], -1).astype(np.float64)
                    if op["pos"] == "affine":
                        P = P * np.array([2.5, 0.7]) + np.array([10.0, -3.0])
                    elif op["pos"] == "jitter":
                        P = P + g.uniform(-0.4, 0.4, P.shape)
                    elif op["pos"] == "serpentine":
                        ys2 = ys.copy()
                        ys2[1::2] = ys2[1::2, ::-1]
                        P = np.stack([xs.ravel(), ys2.ravel()], -1).astype(np.float64)
                    else:
                        P = P[g.permutation(n)]
                    if np.linalg.matrix_rank(P - P.mean(0), tol=1e-6) >= 2:
                        pos = np.ascontiguousarray(P.astype(np.float32))
                        bump(probes, "forward_with_explicit_positions")
                b = op["b"]
                twin = _ctx["om"].CenterOfMassOriginModel.from_dataset(
                    _ctx["D4"].from_array(_lay(a, lay), **cal))
                # step by step on the twin
                twin.calculate_origin(b)
                if op["fit"]:
                    twin.fit_origin_background(None if pos is None else pos.copy(), op["method"])
                    if op["shift"]:
                        twin.shift_origin_to(tuple(op["coord"]), b, op["mode"])
                # one call on the working instance
                args = dict(max_batch_size=b, fit_origin_bkg=op["fit"],
                            probe_positions=None if pos is None else pos.copy(), fit_method=op["method"],
                            estimate_detector_orientation=False, shift_to_origin=op["shift"],
                            origin_coordinate=tuple(op["coord"]), mode=op["mode"])
                if op["kw"]:
                    model.forward(**args)
                else:
                    model.forward(args["max_batch_size"], args["fit_origin_bkg"], args["probe_positions"],
                                  args["fit_method"], False, None, args["shift_to_origin"],
                                  args["origin_coordinate"], args["mode"])
                bsizes.add(b if b is not None else n)
                res["steps"] += 1
                pairs = [("origin_measured", model.origin_measured, twin.origin_measured)]
                if op["fit"]:
                    pairs.append(("origin_fitted", model.origin_fitted, twin.origin_fitted))
                    if op["shift"]:
                        pairs.append(("shifted_tensor", model.shifted_tensor, twin.shifted_tensor))
                for nm, x_, y_ in pairs:
                    if x_ is None or y_ is None or tuple(x_.shape) != tuple(y_.shape) or not bool(
                            torch.allclose(x_, y_, rtol=1e-5, atol=1e-6 * float(max(1.0, a.max())),
                                           equal_nan=True)):
                        viol("forward_differs_from_steps", f"{tag}: {nm} after forward(fit={op['fit']}, "
                             f"positions={op['pos'] if pos is not None else None}, method={op['method']}, "
                             f"shift={op['shift']}, coord={op['coord']}, mode={op['mode']}, "
                             f"{'keywords' if op['kw'] else 'positional'}) differs from the step-by-step "
                             f"calls with the same arguments", f"forward_differs_from_steps:{nm}")
                        break
                got = model.origin_measured.detach().numpy().astype(np.float64)
                if got.shape == ref.shape and not np.abs(got - ref).max() <= tol:
                    viol("com_mismatch", f"{tag}: origin_measured after forward() deviates "
                         f"{np.abs(got - ref).max():.3g} px", "com_mismatch:origin_model:forward")
                have_measured = True
                have_fitted = have_fitted or op["fit"]
                shifted_once = shifted_once or (op["fit"] and op["shift"])
            elif k == "plant_plane_pos":
                bump(probes, "planted_plane_explicit_positions")
                g = np.random.Generator(np.random.PCG64(op["seed"]))
                xs, ys = np.meshgrid(np.arange(sx), np.arange(sy), indexing="ij")
                pos = np.stack([xs.ravel(), ys.ravel()], -1) * np.asarray(op["scale"]) + np.asarray(
                    op["offset"]) + g.uniform(-1, 1, (n, 2)) * op["jitter"]
                if np.linalg.matrix_rank(pos - pos.mean(0), tol=1e-6) < 2:
                    continue          # collinear positions do not determine a plane
                planted = np.stack([c[0] * pos[:, 0] + c[1] * pos[:, 1] + c[2] for c in op["coef"]],
                                   -1).astype(np.float32)
                if op["permute"]:
                    perm = g.permutation(n)
                    pos, planted = pos[perm], planted[perm]
                p32 = np.ascontiguousarray(pos.astype(np.float32))
                arg = {"numpy": p32, "tensor": torch.from_numpy(p32.copy()),
                       "noncontig": torch.from_numpy(np.ascontiguousarray(p32.T)).T}[op["as"]]
                model.origin_measured = torch.from_numpy(planted.copy())
                model.fit_origin_background(probe_positions=arg, fit_method="plane")
                got = model.origin_fitted.detach().numpy()
                err = np.abs(got - planted).max()
                if not err <= 2e-4 * max(1.0, float(np.abs(planted).max()), float(np.abs(pos).max())):
                    viol("planted_surface_not_recovered", f"{tag}: plane over explicit positions "
                         f"(scale {op['scale']} offset {op['offset']} jitter {op['jitter']} permuted "
                         f"{op['permute']} as {op['as']}) deviates {err:.3g}",
                         "planted_surface:model:plane_explicit_positions")
                have_fitted = True
                have_measured = False
    except MemoryError:
        raise HarnessError("injected MemoryError escaped the retry logic")
    except Exception as e:
        viol("op_raised", f"history raised {e!r} at {tag}", f"op_raised:{k}:{type(e).__name__}")
    finally:
        fault.disarm()

    # ---- the ptychography dataset model, vectorised and looped, on the same data
    if plan.get("raster"):
        rfit = plan["raster_fit"]
        if rfit == "parabola" and (n < 7 or min(sx, sy) < 3):
            rfit = "plane"           # six coefficients need more than six patterns and sides >= 3
        if rfit in ("parabola", "no_shift"):
            bump(probes, "raster_fit_" + rfit)
        for vec in (True, False):
            bump(probes, "vectorised_path" if vec else "looped_path")
            src = a.copy()
            try:
                d = _ctx["D4"].from_array(src, sampling=(1.0, 1.0, 0.05, 0.05),
                                          units=("A", "A", "A^-1", "A^-1"))
                pd = _ctx["Raster"].from_dataset4dstem(d, verbose=0)
                pd.preprocess(com_fit_function=rfit, plot_rotation=False, plot_com=False,
                              probe_energy=300e3, force_com_rotation=0, force_com_transpose=False,
                              vectorized=vec)
                cm = np.asarray(pd.com_measured, dtype=np.float64)
            except Exception as e:
                viol("op_raised", f"Raster.preprocess(vectorized={vec}) raised {e!r}",
                     f"op_raised:raster:{vec}:{type(e).__name__}")
                continue
            err = max(np.abs(cm[0] - ref_r).max(), np.abs(cm[1] - ref_c).max())
            if not err <= tol:
                sw = max(np.abs(cm[1] - ref_r).max(), np.abs(cm[0] - ref_c).max())
                viol("com_mismatch", f"dataset model vectorized={vec} scan={plan['scan']} det="
                     f"{plan['det']}: max |com_measured - float64 reference| = {err:.3g} px "
                     f"(with rows and columns swapped: {sw:.3g})",
                     f"com_mismatch:dataset_model:vectorized={vec}" + (":swapped" if sw <= tol else ""))
            if not np.array_equal(src, a):
                viol("input_mutated", f"preprocess(vectorized={vec}) modified the caller's array",
                     f"input_mutated:vectorized={vec}")
            # ---- detector mask: masked centre of mass = mean coordinate over the weighted pixels
            mk = _dp_mask(plan)
            if mk is not None:
                bump(probes, "detector_mask_" + plan["dp_mask"])
                a4 = a.copy()
                mk0 = mk.copy()
                am = a.astype(np.float64) * mk.astype(np.float64)
                mr, mc = _ref_com(am)
                try:
                    pd._set_intensities_com(a4, dp_mask=mk, fit_function=rfit,
                                            vectorized_calculation=vec)
                    cm = np.asarray(pd.com_measured, dtype=np.float64)
                except Exception as e:
                    viol("op_raised", f"_set_intensities_com(dp_mask={plan['dp_mask']}, vectorized="
                         f"{vec}) raised {e!r}", f"op_raised:raster_mask:{vec}:{type(e).__name__}")
                    continue
                err = max(np.abs(cm[0] - mr).max(), np.abs(cm[1] - mc).max())
                if not err <= tol:
                    viol("com_mismatch", f"dataset model with detector mask ({plan['dp_mask']}) "
                         f"vectorized={vec}: max |com_measured - masked float64 reference| = {err:.3g} px",
                         f"com_mismatch:dataset_model:mask:vectorized={vec}")
                if not np.array_equal(a4, a) or not np.array_equal(mk, mk0):
                    viol("input_mutated", f"_set_intensities_com(vectorized={vec}) modified the "
                         "caller's intensities or mask", f"input_mutated:mask:vectorized={vec}")
                # the origin model on the pre-masked data must agree (same statement, other class)
                if vec and a.dtype.kind == "f":
                    try:
                        dm = _ctx["D4"].from_array((a * mk.astype(a.dtype)), sampling=(1.0, 1.0, 0.05, 0.05),
                                                   units=("A", "A", "A^-1", "A^-1"))
                        om_ = _ctx["om"].CenterOfMassOriginModel.from_dataset(dm).calculate_origin(None)
                        g2 = om_.origin_measured.detach().numpy().astype(np.float64)
                        e2 = max(np.abs(g2[:, 0] - cm[0].ravel()).max(), np.abs(g2[:, 1] - cm[1].ravel()).max())
                        if not e2 <= 2 * tol:
                            viol("models_disagree", f"origin model vs dataset model on masked data: "
                                 f"{e2:.3g} px", "models_disagree:mask")
                    except Exception as e:
                        viol("op_raised", f"origin model on masked data raised {e!r}",
                             f"op_raised:origin_model_masked:{type(e).__name__}")
    if len(bsizes) >= 2:
        res["nontrivial"] = plan_digest({k: plan[k] for k in plan if k != "run_seed"})
    seen, uniq = set(), []
    for v_ in res["violations"]:
        if (v_["oracle"], v_["sig"]) not in seen:
            seen.add((v_["oracle"], v_["sig"]))
            uniq.append(v_)
    res["violations"] = uniq
    res["digest"] = plan_digest([{k: plan[k] for k in plan if k != "run_seed"}, sorted(
        (x["oracle"], x["sig"]) for x in uniq), res["steps"], res["sched"]])
    return res


def plan_size(plan):
    return len(plan["ops"]) + (2 if plan.get("raster") else 0)


def shrink(plan):
    from .. import simhist

    yield from simhist.shrink_history(plan, "ops")
    if plan.get("raster") and plan["ops"]:
        yield {**plan, "ops": []}
    if plan.get("raster"):
        yield {**plan, "raster": False}
    for i, op in enumerate(plan["ops"]):
        if op.get("fault"):
            p = copy.deepcopy(plan)
            p["ops"][i].pop("fault")
            yield p
        if op["b"] is not None:
            p = copy.deepcopy(plan)
            p["ops"][i]["b"] = None
            yield p
    for key, plain in (("layout", "C"), ("calib", "unit"), ("dp_mask", None)):
        if plan.get(key) not in (None, plain):
            yield {**plan, key: plain}
    if plan.get("scale_e", 0):
        yield {**plan, "scale_e": 0}
    if plan.get("count_mul", 1) != 1:
        yield {**plan, "count_mul": 1}
    for key, small in (("scan", [2, 2]), ("det", [3, 3]), ("scan", [2, 3]), ("det", [3, 4])):
        if plan[key] != small:
            yield {**plan, key: small}
