"""C08 — failed saves leave no loadable partial object; write-once never overwrites; no save
alters a path other than its target.   Engine: E-simio (fault enumeration)."""
from __future__ import annotations

import copy
import hashlib
import os

from .. import graphs, serio, simstore
from ..core import HarnessError, Rng, Violation, bump, new_result, plan_digest

ID = "C08"
LEVEL = "fault_enumeration"
ENGINE = "simio"
TIERS = {
    "quick": {"runs": 320, "budget_s": 75, "chunk": 1, "positions": 14},
    "thorough": {"runs": 4000, "budget_s": 1500, "chunk": 1, "positions": "all"},
}
RULE = ("one evaluation = one workload (object-graph versions x target precondition x store/mode/"
        "level/path kind x zarr knobs x I/O schedule seed x history of 1-3 saves; targets also alone "
        "in pre-existing empty parents, decoy siblings with staging-like names, hard-linked "
        "snapshots of a foreign pre-existing file and of every saved object); a fault-free "
        "recording pass counts the store operations K, zip members M and torch/dill calls J of the "
        "focus save, then the history is re-executed once per fault position (quick: <=14 sampled "
        "positions incl. all zip-assembly and fs positions; thorough: EVERY position k in "
        "[0,K)x{before,after} + all others). distinct_nontrivial = number of distinct "
        "(workload digest, fault position) pairs whose fault actually FIRED inside save().")
SCHED_MEASURE = "distinct completion-order signatures of the simulated executor during the focus save"
ASSUMPTIONS = [
    "faults are Exception subclasses (OSError/TypeError) raised at store operations, zip assembly, "
    "torch.save/dill.dumps, os.makedirs and TemporaryDirectory creation; no process kill, no "
    "failure of the delete-old-target step, no concurrent writers",
    "completeness is judged against what a fault-free save+load of the same version returns in the "
    "same run (so C01 infidelities cannot masquerade as C08 violations)",
    "a blocking store call is atomic at one virtual instant (zarr's _put is write-temp-then-rename)",
    "a staging directory re-created by a zarr background write that lands after quantem's cleanup "
    "is recorded as an observation, not a violation",
]
COMPONENTS_REAL = ["quantem.core.io.serialize (save/load/_recursive_*)", "zarr 3.4 group/array/"
                   "metadata/codec pipeline", "numcodecs blosc", "zipfile", "torch.save/load",
                   "dill", "real file I/O in a tmpfs sandbox"]
COMPONENTS_STUB = ["zarr sync() dispatcher + event-loop thread + thread pool -> SimLoop (inline, "
                   "virtual clock, seeded completion order)", "LocalStore -> SimStore (instrumented "
                   "subclass)", "os.walk / list_dir order (seeded)", "tempfile location (sandbox)"]
EXPECTED_PROBES = ["fault_before_first_attr", "fault_in_write_skip_metadata",
                   "fault_in_chunk_of_multichunk_array", "fault_during_nested_object",
                   "genuine_unpicklable_attribute", "second_fault_in_history", "old_object_survived",
                   "target_absent_after", "target_unreadable_after",
                   "write_once_refused", "stragglers_at_raise", "recovery_save_ok",
                   "hardlinked_foreign_file", "hardlinked_snapshot_of_saved_object",
                   "target_is_symlink_to_object", "fault_is_keyboard_interrupt",
                   "dotdot_in_target_sub", "dotdot_in_target_lnk", "warnings_as_errors",
                   "pre_existing_empty_directory"]
# thorough tier only: "sweep_exhaustive" / "sweep_strided" count how many workloads were swept over
# EVERY fault position and how many (more than 700 store positions) over a stride

C08_KINDS = ["int", "float", "bool", "none", "str", "path", "list", "tuple", "dict", "nd", "tensor",
             "obj", "numseq", "npscalar", "module"]


RULE = RULE + " Rounds 14-15: sticky faults (after the armed ENOSPC/EIO fired, every later write-type store operation / zip member / zip close of the same save fails too; deletes keep working); targets spelled '~/name' with a scratch $HOME inside the sandbox that holds a complete decoy object."


def setup():
    serio.setup()


# ------------------------------------------------------------------------------------------
def _strip_0d(spec):
    """C08 graphs avoid 0-d / empty arrays: their fidelity is C01's business."""
    for _, s in graphs.walk(spec):
        if s.get("k") == "nd" and (s["shape"] == [] or 0 in s["shape"]):
            s["shape"] = [2]
        if s.get("k") == "npscalar" and s["dtype"].startswith("complex"):
            s["dtype"] = "float64"
            s["v"] = "0x1.0p+0"
    return spec


def gen(rng: Rng, tier, i):
    nver = rng.weighted([(1, 3), (2, 4), (3, 2)])
    versions = []
    for v in range(nver + 1):  # +1: the recovery version
        g, _ = graphs.gen_graph(rng.fork(("g", v)), tier, allow=C08_KINDS,
                                root_cls=rng.pick(["Plain", "Node", "Plain"]))
        _strip_0d(g)
        g["attrs"] = [a for a in g["attrs"] if a[0] != "ver"]
        g["attrs"].insert(rng.randrange(len(g["attrs"]) + 1), ["ver", {"k": "int", "v": v}])
        versions.append(g)
    store = rng.pick(["zip", "dir"])
    if store == "zip":
        tgt = rng.pick([{"name": "tgt.zip", "store": "zip"}, {"name": "tgt.zip", "store": "auto"},
                        {"name": "tgt", "store": "zip"}])
    else:
        tgt = rng.pick([{"name": "tgt", "store": "dir"}, {"name": "tgt", "store": "auto"},
                        {"name": "tgt/", "store": "dir"}])
    if rng.chance(0.25):
        # the target alone in pre-existing, otherwise EMPTY parent directories (they are not the
        # save's to remove)
        tgt = dict(tgt, name=rng.pick(["solo/", "a/b/c/"]) + tgt["name"])
    dd = rng.fork("dotdot")
    if not tgt["name"].endswith("/") and "/" not in tgt["name"] and dd.chance(0.1):
        # '..' in the spelling of the target: behind a real directory, or behind a SYMLINKED one
        # (then the physical target is not what a lexical collapse of the path names); a complete
        # decoy object sits at the lexically collapsed path
        tgt = dict(tgt, name=dd.pick(["sub/../", "lnk/../", "~/"]) + tgt["name"])
    # "symlink_obj": the target is a symbolic link to an earlier COMPLETE object elsewhere (results
    # folder on scratch storage).  The library may refuse such a save or replace the link; what it
    # must never do is leave a partial object loadable through the target path.
    pre = rng.weighted([("absent", 3), ("file", 2), ("dir", 1), ("symlink_obj", 1), ("emptydir", 1)]) \
        if nver == 1 else "absent"
    pre_size = rng.randrange(4)
    if tgt["name"].endswith("/") and pre in ("file", "symlink_obj"):
        pre = "dir"
    if pre == "emptydir" and store == "zip":
        pre = "file"          # an EMPTY directory as pre-existing target (mkdtemp / mkdir-then-save): dir store   # 'name/' with a regular file called 'name' is not an existing path for the OS
    steps = []
    for v in range(nver):
        first = v == 0
        mode = "w" if (first and pre == "absent" and rng.chance(0.7)) else rng.weighted(
            [("o", 5), ("w", 2)] if (pre == "absent" or not first) else [("o", 4), ("w", 4)])
        steps.append({"op": "save", "v": v, "mode": mode,
                      "level": rng.pick([None, 0, 1, 4, 4, 9]),
                      "path_kind": rng.pick(["str", "Path", "str", "Path", "rel", "relPath"])})
    if tgt["name"].startswith("~/"):
        # a target spelled with a leading '~' (round 15, S-C08o): given verbatim; the scratch $HOME of
        # the simulated machine holds a complete decoy object under the same name
        for st in steps:
            st["path_kind"] = "tilde" if st["path_kind"] in ("str", "rel") else "tildePath"
    focus = nver - 1
    if nver == 3 and rng.chance(0.8):
        steps[1]["fault_frac"] = {"kind": rng.pick(["store", "store", "zip_write", "ser"]),
                                  "frac": rng.random(), "when": rng.pick(["before", "after"])}
    unpick = None
    if rng.chance(0.12):
        unpick = {"pos": rng.random(), "how": rng.pick(["generator", "reduce_raises"])}
    n_pos = TIERS[tier]["positions"]
    return {"versions": versions, "target": tgt, "pre": pre, "pre_size": pre_size, "steps": steps,
            "focus": focus,
            # a second NAME for the target's data (rsync --link-dest / cp -al style snapshots): a
            # pre-existing foreign file gets a hard link elsewhere, and after every successful save
            # the harness hard-links the object's file(s) into a snapshot outside the target.  A save
            # that rewrites an existing file in place instead of unlinking it alters those paths.
            "hardlinks": rng.fork("hardlinks").chance(0.35),
            # warnings escalated to errors while save() runs (python -W error::RuntimeWarning, pytest's
            # filterwarnings=error): the state of the warning filters is part of the environment
            "warnings_as_errors": rng.fork("warn").pick([None, None, None, "runtime", "runtime+user"]),
            "unpicklable": unpick, "positions": f"sample:{n_pos}" if n_pos != "all" else "all",
            "env": serio.gen_env(rng.fork("env")), "pos_seed": rng.randrange(2 ** 32)}


class _ReduceRaises:
    def __reduce__(self):
        raise TypeError("this object refuses to be pickled")


def _build_version(plan, v, with_unpicklable=False):
    obj = graphs.build(plan["versions"][v])
    if with_unpicklable and plan.get("unpicklable"):
        u = plan["unpicklable"]
        items = list(obj.__dict__.items())
        pos = int(u["pos"] * (len(items) + 1))
        bad = (x for x in [1]) if u["how"] == "generator" else _ReduceRaises()
        items.insert(pos, ("unpk", bad))
        obj.__dict__.clear()
        obj.__dict__.update(items)
    return obj


def _setup_pre(E, plan, tgt_path):
    name = plan["target"]["name"]
    if name.startswith("lnk/../"):
        os.makedirs(os.path.join(E.work, "elsewhere2", "deep"))
        os.symlink(os.path.join(E.work, "elsewhere2", "deep"), os.path.join(E.work, "lnk"))
        # decoy: a complete object at the path a lexical normalisation of the target would name
        decoy = os.path.join(E.work, _final_path(plan)[len("lnk/../"):])
        obj = _build_version(plan, len(plan["versions"]) - 1)
        _, exc, _ = E.save(obj, decoy, mode="w", store=_store_kind(plan))
        if exc is not None:
            raise HarnessError(f"could not create the decoy object: {exc!r}")
    elif name.startswith("sub/../"):
        os.makedirs(os.path.join(E.work, "sub"))
    elif name.startswith("~/"):
        os.makedirs(E.home)
        decoy = os.path.join(E.home, _final_path(plan)[len("~/"):])
        obj = _build_version(plan, len(plan["versions"]) - 1)
        _, exc, _ = E.save(obj, decoy, mode="w", store=_store_kind(plan))
        if exc is not None:
            raise HarnessError(f"could not create the decoy object in $HOME: {exc!r}")
    os.makedirs(os.path.dirname(tgt_path), exist_ok=True)   # pre-existing (maybe empty) parents
    # siblings that no save may touch
    os.makedirs(os.path.join(E.work, "sib_dir", "sub"))
    with open(os.path.join(E.work, "sib_dir", "sub", "f.bin"), "wb") as f:
        f.write(b"sibling-data" * 10)
    with open(os.path.join(E.work, "tgt.zip.bak"), "wb") as f:
        f.write(b"PK-not-really")
    with open(os.path.join(E.work, "tgt_other"), "wb") as f:
        f.write(b"other")
    # unrelated files that happen to carry names a staging scheme might pick
    for nm in ("tgt.tmp", "tgt.partial", "tgt.zip.tmp", "tgt.zip.partial", ".tgt.tmp", "tgt~",
               "tgt.zip~", "tgt.bak", "tgt.lock"):
        with open(os.path.join(E.work, nm), "wb") as f:
            f.write(b"unrelated " + nm.encode())
    if plan["pre"] == "file":
        with open(tgt_path, "wb") as f:
            # empty, tiny and larger foreign files (size-dependent handling must not exist)
            f.write(b"foreign file contents \x00\x01" * [0, 1, 7, 300][plan.get("pre_size", 2) % 4])
        if plan.get("hardlinks"):
            os.link(tgt_path, os.path.join(E.work, "hl_pre_snapshot"))
    elif plan["pre"] == "dir":
        os.makedirs(os.path.join(tgt_path, "inner"))
        with open(os.path.join(tgt_path, "inner", "x.txt"), "w") as f:
            f.write("foreign dir")
        with open(os.path.join(tgt_path, "readme"), "w") as f:
            f.write("foreign")
    elif plan["pre"] == "emptydir":
        os.makedirs(tgt_path)
    elif plan["pre"] == "symlink_obj":
        kind = _store_kind(plan)
        real = _real_path(E, plan)
        os.makedirs(os.path.dirname(real))
        obj = _build_version(plan, len(plan["versions"]) - 1)
        _, exc, _ = E.save(obj, real, mode="w", store=kind)
        if exc is not None:
            raise HarnessError(f"could not create the pre-existing object behind the symlink: {exc!r}")
        os.symlink(real, tgt_path)


def _real_path(E, plan):
    return os.path.join(E.work, "elsewhere", "real_obj" + (".zip" if _store_kind(plan) == "zip" else ""))


def _hardlink_snapshot(E, tgt_path, si):
    """cp -al: give every file of the (successfully saved) target a second name outside it."""
    if os.path.isfile(tgt_path):
        os.link(tgt_path, os.path.join(E.work, f"hl_snap{si}"))
        return 1
    n = 0
    root = os.path.join(E.work, f"hl_snapdir{si}")
    for dirpath, dirnames, filenames in os.walk(tgt_path):
        dirnames.sort()
        rel = os.path.relpath(dirpath, tgt_path)
        os.makedirs(os.path.join(root, rel), exist_ok=True)
        for fn in sorted(filenames):
            os.link(os.path.join(dirpath, fn), os.path.join(root, rel, fn))
            n += 1
    return n


def _others_hash(E, tgt_path):
    """Map of everything in the work directory EXCEPT the target subtree: every directory (also
    empty ones, also the target's own parents) and every file with a hash of its bytes."""
    out = {}
    # the PHYSICAL location of the target's directory entry ('..' behind a symlinked parent resolves
    # through the link), the entry itself not followed
    tgt = os.path.join(os.path.realpath(os.path.dirname(tgt_path)), os.path.basename(tgt_path))
    # what a symlinked target points to belongs to the target (whether a save may write through the
    # link is not settled by the property; the destination is neither required to change nor to stay)
    real = os.path.join(E.work, "elsewhere", "real_obj")
    for dirpath, dirnames, filenames in os.walk(E.work):
        dirnames.sort()
        keep = []
        for dn in dirnames:
            if os.path.abspath(os.path.join(dirpath, dn)) in (tgt, real):
                continue
            keep.append(dn)
        dirnames[:] = keep
        out["D:" + os.path.relpath(dirpath, E.work)] = ""
        for fn in sorted(filenames):
            fp = os.path.join(dirpath, fn)
            if os.path.abspath(fp) in (tgt, real + ".zip"):
                continue
            with open(fp, "rb") as f:
                out["f:" + os.path.relpath(fp, E.work)] = hashlib.blake2b(
                    f.read(), digest_size=10).hexdigest()
    return out


def _others_diff(a, b):
    gone = sorted(k for k in a if k not in b)
    new = sorted(k for k in b if k not in a)
    chg = sorted(k for k in a if k in b and a[k] != b[k])
    return (f"removed={gone[:4]} " if gone else "") + (f"created={new[:4]} " if new else "") + (
        f"modified={chg[:4]}" if chg else "")


def _final_path(plan):
    t = plan["target"]
    name = t["name"].rstrip("/")
    if t["store"] == "zip" and not name.endswith(".zip"):
        name += ".zip"
    return name


def _resolve_frac(f, counts):
    kind = f["kind"]
    n = {"store": counts.get("store", 0), "zip_write": counts.get("zip_write", 0),
         "ser": counts.get("ser", 0)}.get(kind, 0)
    if n <= 0:
        kind, n = "store", counts.get("store", 1)
    return {"kind": kind, "k": min(int(f["frac"] * n), max(n - 1, 0)), "when": f.get("when", "before")}


def _execute(plan, focus_fault, rec_counts=None, refs=None, keep_log=True):
    """Run the whole history once in a fresh sandbox.  focus_fault None = recording pass.
    Returns dict(violations, counts per step, refs, log events, probes, ...)."""
    out = {"viol": [], "counts": [], "refs": {}, "probes": {}, "obs": {}, "fired": False,
           "sig": None}
    recording = refs is None
    with serio.SerEnv(plan["env"], keep_log=keep_log) as E:
        wae = plan.get("warnings_as_errors")
        wae_cats = None
        if wae:
            wae_cats = [RuntimeWarning] + ([UserWarning] if "user" in wae else [])
            bump(out["probes"], "warnings_as_errors")
        final_name = _final_path(plan)
        tgt_final = os.path.join(E.work, final_name)
        _setup_pre(E, plan, tgt_final)
        if plan.get("hardlinks") and plan["pre"] == "file":
            bump(out["probes"], "hardlinked_foreign_file")
        if plan["target"]["name"].startswith("~/"):
            bump(out["probes"], "tilde_in_target_with_decoy_in_home")
        if "/../" in plan["target"]["name"]:
            bump(out["probes"], "dotdot_in_target_" + plan["target"]["name"].split("/")[0])
        last_ok = None          # version id of the last successful save to the target
        foreign = plan["pre"] in ("file", "dir", "emptydir")
        if plan["pre"] == "emptydir":
            bump(out["probes"], "pre_existing_empty_directory")
        REFS = out["refs"] if recording else refs
        symlinked = plan["pre"] == "symlink_obj"
        if symlinked:
            bump(out["probes"], "target_is_symlink_to_object")
            got, lexc, _ = E.load_copy(_real_path(E, plan))   # in every pass: same event log
            if lexc is not None:
                raise HarnessError(f"object behind the symlink does not load: {lexc!r}")
            if recording:
                out["refs"]["pre"] = got
            del got
            last_ok = "pre"
        steps = list(plan["steps"]) + [{"op": "save", "v": len(plan["versions"]) - 1, "mode": "o",
                                        "level": 4, "path_kind": "str", "recovery": True}]
        for si, st in enumerate(steps):
            v = st["v"]
            is_focus = si == plan["focus"]
            armed = None
            use_unpk = False
            if not recording:
                if is_focus and focus_fault is not None:
                    if focus_fault["kind"] == "unpicklable":
                        use_unpk = True
                    elif focus_fault["kind"] == "bad_level":
                        pass
                    else:
                        armed = dict(focus_fault)
                elif st.get("fault_frac") and rec_counts:
                    armed = _resolve_frac(st["fault_frac"], rec_counts[si])
                    bump(out["probes"], "second_fault_in_history")
            obj = _build_version(plan, v, with_unpicklable=use_unpk)
            kw = {"mode": st["mode"], "store": plan["target"]["store"],
                  "compression_level": st["level"]}
            if not recording and is_focus and focus_fault and focus_fault["kind"] == "bad_level":
                kw["compression_level"] = 11
            path_arg = E.path(plan["target"]["name"], st["path_kind"])
            pre_hash = simstore.tree_hash(tgt_final)
            others_before = _others_hash(E, tgt_final)
            n_sig0 = len(E.sim.completion_sig)
            E.warnings_as_errors = wae_cats       # for the save under test only, not for oracle loads
            try:
                _, exc, sc = E.save(obj, path_arg, armed=armed, **kw)
            finally:
                E.warnings_as_errors = None
            del obj
            out["counts"].append({k: sc[k] for k in ("store", "zip_write", "ser", "makedirs",
                                                     "tempdir", "zip_open", "zip_close")})
            if is_focus:
                out["sig"] = hashlib.blake2b(repr(E.sim.completion_sig[n_sig0:]).encode(),
                                             digest_size=6).hexdigest()
                out["fired"] = bool(sc["fired"]) or use_unpk or (
                    focus_fault is not None and focus_fault["kind"] == "bad_level")
                out["focus_exc"] = type(exc).__name__ if exc else None
                if sc["fired"] and sc["inflight_at_return"]:
                    bump(out["probes"], "stragglers_at_raise")
                if sc["fired"]:
                    _classify_fault_site(E, sc, out["probes"],
                                         rec_counts[si]["store"] if rec_counts else None)
            tag = f"step{si}"
            # ---- oracle 2: nothing but the target changed; staging is gone
            others_after = _others_hash(E, tgt_final)
            if others_after != others_before:
                out["viol"].append(Violation(
                    "path_outside_target_altered",
                    f"{tag}: entries outside the target changed: "
                    f"{_others_diff(others_before, others_after)} (exc={type(exc).__name__})",
                    "path_outside_target_altered"))
            leftovers = E.tmp_entries()
            if leftovers:
                if sc["inflight_at_return"] or E.io.stragglers_seen:
                    bump(out["obs"], "staging_recreated_by_straggler")
                    import shutil
                    for n in leftovers:
                        shutil.rmtree(os.path.join(E.io.tmp_root, n), ignore_errors=True)
                else:
                    out["viol"].append(Violation("staging_leak", f"{tag}: temp entries left: "
                                                 f"{leftovers}", "staging_leak"))
            post_hash = simstore.tree_hash(tgt_final)
            existed = pre_hash != "ABSENT"
            # ---- oracle 3: write-once
            if st["mode"] == "w" and existed:
                if post_hash != pre_hash:
                    out["viol"].append(Violation(
                        "write_once_modified",
                        f"{tag}: mode='w' on an existing target changed it (exc={type(exc).__name__})",
                        f"write_once_modified:{plan['target']['store']}:pre={_prekind(plan, last_ok)}"))
                elif exc is not None:
                    bump(out["probes"], "write_once_refused")
                continue
            # ---- oracle 1: state of the target
            if exc is None:
                got, lexc, _ = E.load_copy(tgt_final)
                if recording:
                    if lexc is not None:
                        out["unloadable"] = f"{tag}: clean save does not load: {lexc!r}"
                        return out
                    out["refs"][v] = got
                else:
                    ref = REFS.get(v)
                    if lexc is not None or ref is None:
                        out["viol"].append(Violation(
                            "successful_save_not_loadable",
                            f"{tag}: save returned normally but load fails: {lexc!r}",
                            "successful_save_not_loadable"))
                    else:
                        d = graphs.equal(ref, got)
                        if d:
                            out["viol"].append(Violation(
                                "successful_save_incomplete",
                                f"{tag}: save returned normally (fault swallowed?) but the object "
                                f"differs from a clean save: {d[:3]}",
                                "successful_save_incomplete:" + graphs.diff_sig(d)))
                    if st.get("recovery"):
                        bump(out["probes"], "recovery_save_ok")
                last_ok = v
                foreign = False
                if plan.get("hardlinks") and not st.get("recovery"):
                    if _hardlink_snapshot(E, tgt_final, si):
                        bump(out["probes"], "hardlinked_snapshot_of_saved_object")
                continue
            # save raised
            if recording and not symlinked:
                out["unloadable"] = f"{tag}: fault-free save raised {exc!r}"
                return out
            if symlinked and os.path.islink(tgt_final):
                bump(out["probes"], "symlinked_target_save_refused")
                if st.get("recovery"):
                    continue      # refusing a symlinked target is a legitimate answer
            if st.get("recovery"):
                out["viol"].append(Violation(
                    "no_recovery_after_faults",
                    f"fault-free save(mode='o') after the faulted history raised {exc!r}",
                    "no_recovery_after_faults:" + type(exc).__name__))
                continue
            if post_hash == "ABSENT":
                bump(out["probes"], "target_absent_after")
                foreign = False
                last_ok = None
                continue
            if post_hash == pre_hash:
                bump(out["probes"], "old_object_survived" if last_ok is not None else
                     "old_foreign_survived")
                continue
            got, lexc, _ = E.load_copy(tgt_final)
            if lexc is not None:
                bump(out["probes"], "target_unreadable_after")
                last_ok = None
                foreign = False
                continue
            # loads to something: must be a COMPLETE version (the new one, or the earlier one)
            cands = [x for x in (v, last_ok) if x is not None and x in REFS]
            diffs = {}
            for c in cands:
                d = graphs.equal(REFS[c], got)
                if not d:
                    diffs = None
                    bump(out["probes"], "complete_new_after_fault" if c == v else
                         "old_object_survived")
                    last_ok = c
                    break
                diffs[c] = d
            if diffs is not None:
                d = diffs.get(v) or next(iter(diffs.values()), graphs.Diff())
                miss = [x for x in d if x[0] == "attr_names_missing"]
                detail = (f"{tag}: save raised {type(exc).__name__} but the target loads to an "
                          f"incomplete object: {[tuple(x) for x in d[:3]]}; attrs present="
                          f"{sorted(vars(got))[:12]}")
                out["viol"].append(Violation(
                    "partial_object_loadable", detail,
                    f"partial_object_loadable:{_store_kind(plan)}:{_fault_class(focus_fault, armed)}"))
                last_ok = None
            foreign = False
        out["events"] = list(E.log.events) if keep_log else None
        out["digest"] = E.log.digest()
        res = new_result()
        E.finish(res)
        out["res"] = res
    return out


def _store_kind(plan):
    return "zip" if _final_path(plan).endswith(".zip") else "dir"


def _fault_class(focus_fault, armed):
    f = armed or focus_fault or {}
    return f.get("kind", "?")


def _prekind(plan, last_ok):
    return "object" if last_ok is not None else plan["pre"]


def _classify_fault_site(E, sc, probes, K=None):
    """Rare-branch probes derived from the event log around the FAULT event."""
    ev = E.log.events
    idx = max((i for i, e in enumerate(ev) if e.startswith("FAULT|")), default=None)
    if idx is None:
        return
    before = ev[:idx]
    # the last submitted store op before the fault = the faulted op (for 'store' kinds)
    last_s = next((e for e in reversed(before) if e.startswith("s|")), "")
    key = last_s.split("|")[-1] if last_s else ""
    scope_sets = [e for e in before if e.startswith("s|") and "|set|" in e]
    if "/c/" in key or key.startswith("c/"):
        arr = key.split("/c/")[0]
        n_chunks = sum(1 for e in ev if e.startswith("s|") and f"{arr}/c/" in e)
        if n_chunks > 1:
            bump(probes, "fault_in_chunk_of_multichunk_array")
    if key.count("/") >= 2 and key.endswith("zarr.json"):
        bump(probes, "fault_during_nested_object")
    attr_sets = [e for e in scope_sets if e.endswith("|zarr.json")]
    if len(attr_sets) <= 2:
        bump(probes, "fault_before_first_attr")
    f = sc["fired"]
    if K and f.get("kind") == "store" and f["k"] >= K - 3 and key == "zarr.json":
        # the two skip-list attributes are the last writes of a save (root zarr.json rewritten)
        bump(probes, "fault_in_write_skip_metadata")


def _positions(plan, counts, rng):
    """All fault positions of the focus save, given the recorded counts."""
    K, M, J = counts["store"], counts["zip_write"], counts["ser"]
    store_pos = [{"kind": "store", "k": k, "when": w} for k in range(K) for w in ("before", "after")]
    other = []
    if counts["zip_open"]:
        other.append({"kind": "zip_open", "k": 0})
        other += [{"kind": "zip_write", "k": m, "when": w} for m in range(M)
                  for w in ("before", "after", "torn")]
        other.append({"kind": "zip_close", "k": 0})
    other += [{"kind": "ser", "k": j} for j in range(J)]
    if counts["makedirs"]:
        other.append({"kind": "makedirs", "k": 0})
    if counts["tempdir"]:
        other.append({"kind": "tempdir", "k": 0})
    other.append({"kind": "bad_level", "k": 0})
    if plan.get("unpicklable"):
        other.append({"kind": "unpicklable", "k": 0})
    return store_pos, other


def run(plan):
    res = new_result()
    rec = _execute(plan, None, keep_log=True)
    if rec.get("unloadable"):
        bump(res["obs"], "recording_not_roundtrippable")
        # what the fault-free history already violated (paths outside the target, staging, write-once)
        # is reported all the same; only the fault sweep needs a loadable recording
        res["violations"] += rec["viol"]
        res["digest"] = plan_digest(plan)
        res["obs"]["_"] = 0
        res["obs"].pop("_")
        return res
    if rec["viol"]:
        # violations on a fault-free history (sibling changes, staging leak, write-once)
        res["violations"] += rec["viol"]
    counts = rec["counts"]
    fc = counts[plan["focus"]]
    refs = rec["refs"]
    pos_spec = plan["positions"]
    if isinstance(pos_spec, list):
        positions = pos_spec
    else:
        prng = Rng(plan.get("pos_seed", 0))
        store_pos, other = _positions(plan, fc, prng)
        if pos_spec == "all":
            # every position, unless the workload is so large that the sweep would not fit the
            # per-run wall limit: then every non-store position plus a deterministic stride over
            # the store positions (the evidence counts exhaustive vs strided sweeps)
            cap = 700
            if len(store_pos) > cap:
                step = -(-len(store_pos) // cap)
                store_pos = store_pos[::step] + store_pos[-4:]
                bump(res["probes"], "sweep_strided")
            else:
                bump(res["probes"], "sweep_exhaustive")
            positions = other + store_pos
        else:
            n = int(pos_spec.split(":")[1])
            # all zip-open/close, fs and genuine positions; sample the rest, biased towards the
            # late positions (skip-metadata, last attributes) and the first ones
            must = [p for p in other if p["kind"] in ("zip_open", "zip_close", "makedirs", "tempdir",
                                                       "unpicklable")]
            zw = [p for p in other if p["kind"] == "zip_write"]
            if zw:   # one member each for a lost, a landed-then-failed and a torn write
                must += [zw[prng.randrange(len(zw))] for _ in range(3)]
            rest = [p for p in other if p not in must]
            prng.shuffle(rest)
            pool = list(store_pos)
            take = []
            K2 = len(pool)
            if K2:
                take += [pool[K2 - 1 - prng.randrange(min(6, K2))]]
                take += [pool[prng.randrange(min(8, K2))]]
                for _ in range(n):
                    take.append(pool[prng.randrange(K2)])
            seen, positions = set(), []
            for p in must + rest[:3] + take:
                key = (p["kind"], p["k"], p.get("when"))
                if key not in seen and len(positions) < n:
                    seen.add(key)
                    positions.append(p)
    pd = plan_digest({k: plan[k] for k in plan if k not in ("positions", "run_seed")})
    nontrivial = []
    rec_events = rec["events"]
    ern = Rng(plan.get("pos_seed", 0) + 17)
    for pos in positions:
        if "errno" not in pos and pos["kind"] in ("store", "zip_write", "zip_open"):
            # the KIND of failure varies too: several errnos and non-OSError exception types
            kinds_ = ["ENOSPC", "EIO", "EACCES", "ENOSPC", "EIO", "ValueError", "RuntimeError",
                      "MemoryError", "PermissionError", "TimeoutError", "KeyError"]
            if pos["kind"] != "store":
                # an injected Ctrl-C (BaseException) at the synchronous seams of the zip assembly;
                # store operations run inside the simulated event loop, where asyncio treats a
                # KeyboardInterrupt as a loop shutdown (not injected there)
                kinds_ = kinds_ + ["KeyboardInterrupt", "KeyboardInterrupt", "SystemExit"]
            pos = dict(pos, errno=ern.pick(kinds_))
            if pos["kind"] in ("store", "zip_write") and pos["errno"] in ("ENOSPC", "EIO") \
                    and ern.chance(0.35):
                # a PERSISTENT condition (full disk, device gone): every later write of this
                # save() fails as well - in-flight siblings, handler writes, retries
                pos["sticky"] = True
        out = _execute(plan, pos, rec_counts=counts, refs=refs, keep_log=True)
        if out.get("fired") and pos.get("errno") in ("KeyboardInterrupt", "SystemExit"):
            bump(res["probes"], "fault_is_keyboard_interrupt")
        sub = out["res"]
        for k in ("faults", "probes", "obs"):
            for kk, vv in sub[k].items():
                bump(res[k], kk, vv)
        for kk, vv in out["probes"].items():
            bump(res["probes"], kk, vv)
        for kk, vv in out["obs"].items():
            bump(res["obs"], kk, vv)
        res["sim_time"] += sub["sim_time"]
        res["steps"] += sub["steps"]
        if pos["kind"] == "unpicklable" and out.get("focus_exc"):
            bump(res["probes"], "genuine_unpicklable_attribute")
            bump(res["faults"], "unpicklable_attribute")
        if pos["kind"] == "bad_level":
            bump(res["faults"], "invalid_compression_level")
        if out["fired"]:
            nontrivial.append(f"{pd}:{pos['kind']}:{pos['k']}:{pos.get('when', '')}")
            if out["sig"]:
                res["sched"].append(out["sig"])
        # determinism of the prefix: a faulted pass must be the recording pass up to the fault
        if out.get("events") is not None and not any(
                s.get("fault_frac") for s in plan["steps"][: plan["focus"]]) and pos["kind"] not in (
                "unpicklable", "bad_level"):
            ev = out["events"]
            idx = next((i for i, e in enumerate(ev) if e.startswith("FAULT|")), None)
            if idx is not None and ev[:idx] != rec_events[:idx]:
                j = next(i for i in range(idx) if i >= len(rec_events) or ev[i] != rec_events[i])
                raise HarnessError(f"faulted pass diverged from the recording pass before the fault "
                                   f"at event {j}: {ev[j]!r} vs "
                                   f"{rec_events[j] if j < len(rec_events) else None!r}")
        for v in out["viol"]:
            v = Violation(v["oracle"], f"fault={pos} " + v["detail"], v["sig"])
            v["narrow"] = {"positions": [pos]}
            res["violations"].append(v)
    sub = rec["res"]
    res["sim_time"] += sub["sim_time"]
    res["steps"] += sub["steps"]
    for kk, vv in sub["probes"].items():
        bump(res["probes"], kk, vv)
    res["nontrivial"] = nontrivial
    h = hashlib.blake2b(digest_size=12)
    h.update(rec["digest"].encode())
    h.update(repr(sorted((v["oracle"], v["sig"]) for v in res["violations"])).encode())
    res["digest"] = h.hexdigest()
    # de-duplicate violations per (oracle, sig): keep the first (lowest position)
    seen, uniq = set(), []
    for v in res["violations"]:
        if (v["oracle"], v["sig"]) not in seen:
            seen.add((v["oracle"], v["sig"]))
            uniq.append(v)
    res["violations"] = uniq
    return res


def plan_size(plan):
    return sum(graphs.count_nodes(g) for g in plan["versions"]) + len(plan["steps"])


def shrink(plan):
    """Candidates: fewer steps, simpler graphs, default env."""
    # drop leading steps (keep the focus step)
    f = plan["focus"]
    if f > 0:
        for drop in range(f):
            p = copy.deepcopy(plan)
            p["steps"].pop(drop)
            p["focus"] = f - 1
            yield p
    for si, st in enumerate(plan["steps"]):
        if st.get("fault_frac"):
            p = copy.deepcopy(plan)
            p["steps"][si].pop("fault_frac")
            yield p
    if plan.get("unpicklable") and not any(q.get("kind") == "unpicklable" for q in (
            plan["positions"] if isinstance(plan["positions"], list) else [])):
        p = copy.deepcopy(plan)
        p["unpicklable"] = None
        yield p
    if plan["env"] != serio.DEFAULT_ENV:
        p = copy.deepcopy(plan)
        p["env"] = copy.deepcopy(serio.DEFAULT_ENV)
        yield p
        for k in ("latency", "list_mode", "straggler"):
            if plan["env"].get(k) != serio.DEFAULT_ENV[k]:
                p = copy.deepcopy(plan)
                p["env"][k] = serio.DEFAULT_ENV[k]
                yield p
        if plan["env"].get("zarr") != serio.DEFAULT_ENV["zarr"]:
            p = copy.deepcopy(plan)
            p["env"]["zarr"] = dict(serio.DEFAULT_ENV["zarr"])
            yield p
    if plan.get("hardlinks"):
        yield {**plan, "hardlinks": False}
    if plan.get("warnings_as_errors"):
        yield {**plan, "warnings_as_errors": None}
    if plan["pre"] != "absent":
        p = copy.deepcopy(plan)
        p["pre"] = "absent"
        yield p
    # shrink the graph of the focus version; the fault position is re-expressed relative to the
    # new op count so that it stays inside the save
    fv = plan["steps"][f]["v"]
    for vi in [fv] + [i for i in range(len(plan["versions"])) if i != fv]:
        for g2 in graphs.shrink_spec(plan["versions"][vi]):
            if not any(a[0] == "ver" for a in g2["attrs"]):
                continue
            p = copy.deepcopy(plan)
            p["versions"][vi] = g2
            yield p
            if isinstance(plan["positions"], list) and vi == fv:
                for pos in plan["positions"]:
                    if pos["kind"] in ("store", "zip_write", "ser") and pos["k"] > 0:
                        for k2 in sorted({pos["k"] // 2, pos["k"] - 1, pos["k"] - 2, 0, 2, 3, 5, 8}):
                            if 0 <= k2 < pos["k"]:
                                p2 = copy.deepcopy(p)
                                p2["positions"] = [dict(pos, k=k2)]
                                yield p2
    if isinstance(plan["positions"], list):
        for pos in plan["positions"]:
            if pos["k"] > 0:
                for k2 in (0, pos["k"] // 2, pos["k"] - 1):
                    if k2 != pos["k"]:
                        p = copy.deepcopy(plan)
                        p["positions"] = [dict(pos, k=k2)]
                        yield p
