"""E-simsched: simulator-owned batch schedules.

SimGenerator is a real np.random.Generator subclass whose permutation() is answered by the
simulator (identity, reverse, rotation, riffle, last-block-first, or a PRNG permutation): every
answer is a value the real generator can return, hence a legal schedule.  FailingBatcher wraps a
batcher class and raises MemoryError after j yielded batches (allocation failure mid-stream)."""
from __future__ import annotations

import numpy as np

PERM_KINDS = ["identity", "reverse", "rotate", "riffle", "last_first", "random", "random", "random"]


class SimGenerator(np.random.Generator):
    def __init__(self, seed=0, kinds=("random",), log=None):
        super().__init__(np.random.PCG64(seed))
        self._sim_seed = seed
        self._sim_kinds = list(kinds)
        self._sim_calls = 0
        self._sim_draws = {}
        self._sim_log = log if log is not None else []

    def _count(self, name):
        self._sim_draws[name] = self._sim_draws.get(name, 0) + 1

    def permutation(self, x, axis=0):
        self._count("permutation")
        arr = np.arange(x) if isinstance(x, (int, np.integer)) else np.asarray(x)
        n = len(arr)
        kind = self._sim_kinds[min(self._sim_calls, len(self._sim_kinds) - 1)]
        call = self._sim_calls
        self._sim_calls += 1
        if kind == "identity" or n < 2:
            out = arr.copy()
        elif kind == "reverse":
            out = arr[::-1].copy()
        elif kind == "rotate":
            k = 1 + (self._sim_seed + call) % (n - 1)
            out = np.roll(arr, k)
        elif kind == "riffle":
            h = (n + 1) // 2
            out = np.empty_like(arr)
            out[0::2] = arr[:h]
            out[1::2] = arr[h:]
        elif kind == "last_first":
            k = max(1, n // 3)
            out = np.concatenate([arr[-k:], arr[:-k]])
        else:
            out = super().permutation(arr, axis)
        self._sim_log.append((call, kind, n))
        return out

    def integers(self, *a, **k):
        self._count("integers")
        return super().integers(*a, **k)

    def random(self, *a, **k):
        self._count("random")
        return super().random(*a, **k)

    def shuffle(self, *a, **k):
        self._count("shuffle")
        return super().shuffle(*a, **k)

    def choice(self, *a, **k):
        self._count("choice")
        return super().choice(*a, **k)


class AllocFault:
    """Armed allocation failure for FailingBatcher: fail after `after` yielded batches of the
    `pass_no`-th batcher constructed during the armed call."""

    def __init__(self):
        self.armed = None
        self.fired = 0
        self.constructed = 0
        self.batches_log = []

    def arm(self, pass_no, after):
        self.armed = {"pass": pass_no, "after": after}
        self.constructed = 0

    def disarm(self):
        self.armed = None
        self.constructed = 0


def make_failing_batcher(real_cls, fault: AllocFault):
    class FailingBatcher(real_cls):  # type: ignore[misc, valid-type]
        def __init__(self, *a, **k):
            super().__init__(*a, **k)
            self._sim_ord = fault.constructed   # ordinal of this batcher within the armed call
            self._sim_iters = 0                 # how often it has been iterated (pass number)
            fault.constructed += 1

        def __iter__(self):
            n = 0
            self._sim_pass = self._sim_iters if self._sim_ord == 0 else 100 + self._sim_ord
            self._sim_iters += 1
            for b in super().__iter__():
                arm = fault.armed
                if arm is not None and arm["pass"] == self._sim_pass and n >= arm["after"]:
                    fault.fired += 1
                    fault.armed = None
                    raise MemoryError("injected: out of memory while streaming batches")
                n += 1
                fault.batches_log.append((self._sim_pass, np.asarray(b).copy()))
                yield b

    FailingBatcher.__name__ = "SimpleBatcher"
    return FailingBatcher


def batch_size_knob(rng, n):
    """Batch sizes the public max_batch_size/batch_size arguments can produce for n items."""
    divs = [d for d in range(1, n + 1) if n % d == 0]
    nondivs = [d for d in range(2, n) if n % d != 0] or [1]
    return rng.pick([1, 2, max(1, n - 1), n, n + 1, rng.pick(divs), rng.pick(nondivs), None,
                     rng.randrange(1, n + 3)])
