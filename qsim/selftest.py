"""Determinism / seam self-test (DESIGN 3.5).

short (setup_cmd): byte-compile, import every claimed property, run a few seeds of each twice in
different worker processes and compare digests + verdicts; assert the zarr seam fired and no
real zarr thread exists.
full: more seeds, 1/4/16 workers, fresh interpreter, and another PYTHONHASHSEED (verdicts only).
"""
from __future__ import annotations

import compileall
import json
import os
import subprocess
import sys
import threading

from . import core, driver


def _digests(pid, tier, master, idxs, jobs):
    prop = driver.load_prop(pid)
    prop.setup()
    tot = driver.execute(prop, tier, master, jobs, want_digests=True, indices=idxs, chunk=1,
                         budget_s=1e9)
    if tot["harness_error"]:
        raise core.HarnessError(tot["harness_error"])
    return tot["digests"], tot


def _n_for(pid, mode):
    heavy = {"C05": 3, "C08": 4, "C04": 6, "C09": 6, "C01": 8, "C14": 8}
    base = heavy.get(pid, 12)
    return base if mode == "short" else base * 8


def main(argv):
    mode = argv[0] if argv else "short"
    if mode == "digests":
        # child mode: print digests as JSON (used for fresh-interpreter comparisons)
        pid, n, jobs = argv[1], int(argv[2]), int(argv[3])
        d, _ = _digests(pid, "quick", 12345, list(range(n)), jobs)
        print("DIGESTS " + json.dumps({str(k): v for k, v in sorted(d.items())}))
        return 0
    ok = True
    compileall.compile_dir(os.path.join(core.VERIF_DIR, "qsim"), quiet=1)
    props = [p for p in driver.PROPS if os.path.exists(
        os.path.join(core.VERIF_DIR, "qsim", "props", p.lower() + ".py"))]
    only = os.environ.get("QSIM_SELFTEST_ONLY")
    if only:
        props = [p for p in props if p in only.split(",")]
    jobs = int(os.environ.get("VERIF_JOBS", str(os.cpu_count() or 4)))
    for pid in props:
        n = _n_for(pid, mode)
        idxs = list(range(n))
        a, tot = _digests(pid, "quick", 12345, idxs, jobs)
        b, _ = _digests(pid, "quick", 12345, list(reversed(idxs)), max(1, jobs // 4))
        same = a == b
        line = f"[selftest] {pid}: {n} seeds x2 (jobs {jobs} vs {max(1, jobs // 4)}) identical={same}"
        if not same:
            ok = False
            bad = [i for i in idxs if a.get(i) != b.get(i)]
            line += f" DIVERGED at indices {bad[:10]}"
        print(line, flush=True)
        if mode == "full":
            c, _ = _digests(pid, "quick", 12345, idxs, 1 if n <= 40 else 4)
            if c != a:
                ok = False
                print(f"[selftest] {pid}: digests differ with few workers", flush=True)
            for hs in ("0", "12345"):
                env = dict(os.environ, PYTHONHASHSEED=hs, QSIM_HASHSEED=hs)
                out = subprocess.run(
                    [sys.executable, "-m", "qsim.cli", "--selftest", "digests", pid, str(n),
                     str(jobs)], env=env, capture_output=True, text=True, cwd=core.VERIF_DIR)
                ln = [l for l in out.stdout.splitlines() if l.startswith("DIGESTS ")]
                if not ln:
                    ok = False
                    print(f"[selftest] {pid}: fresh interpreter failed: {out.stderr[-500:]}")
                    continue
                d = {int(k): (v[0], v[1]) for k, v in json.loads(ln[0][8:]).items()}
                aa = {k: (v[0], v[1]) for k, v in a.items()}
                if hs == "0":
                    same = d == aa
                else:  # other hash seed: verdicts must agree, digests may legitimately differ
                    same = {k: v[1] for k, v in d.items()} == {k: v[1] for k, v in aa.items()}
                    dig_same = d == aa
                    print(f"[selftest] {pid}: PYTHONHASHSEED=12345 digests identical={dig_same}")
                print(f"[selftest] {pid}: fresh interpreter PYTHONHASHSEED={hs} consistent={same}",
                      flush=True)
                ok = ok and same
    # seam assertions
    names = [t.name for t in threading.enumerate()]
    z = [n for n in names if n.startswith("zarr") or n.startswith("asyncio")]
    if z:
        ok = False
        print(f"[selftest] real zarr/asyncio threads alive: {z}")
    print(f"[selftest] threads in parent: {names}")
    print("[selftest] " + ("OK" if ok else "FAILED"), flush=True)
    return 0 if ok else 2
