"""E-simio part 1: single-threaded, virtual-time asyncio loop for zarr's synchronous API.

zarr 3 funnels every synchronous call through `zarr.core.sync.sync(coro)`, which ships the
coroutine to a private loop thread and pushes blocking work to a thread pool.  Here `sync` is
rebound (in every zarr module that imported it) to run the coroutine inline on a SimLoop:

* `time()` is a virtual clock; the selector never sleeps, it advances the clock;
* `run_in_executor` (hence `asyncio.to_thread`) creates a future that completes at a
  simulator-chosen virtual instant (`call_later(latency, fire)`), running the blocking function
  inline on the one and only thread.  The completion ORDER of concurrent I/O is therefore
  decided by the run's latency stream; the ready queue stays FIFO as in real asyncio.
"""
from __future__ import annotations

import asyncio
import sys
import threading

from .core import HarnessError


class _VSelector:
    def __init__(self, real, loop):
        self._r = real
        self._loop = loop

    def select(self, timeout=None):
        if timeout is None:
            raise HarnessError("sim deadlock: nothing scheduled and nothing ready")
        if timeout > 0:
            self._loop._vnow += timeout
        return self._r.select(0)

    def __getattr__(self, n):
        return getattr(self._r, n)


class SimLoop(asyncio.SelectorEventLoop):
    def __init__(self, sim):
        super().__init__()
        self._vnow = 0.0
        self.sim = sim
        self.inflight = 0
        self._selector = _VSelector(self._selector, self)

    def time(self):
        return self._vnow

    def run_in_executor(self, executor, func, *args):
        fut = self.create_future()
        self.inflight += 1
        sim = self.sim
        ticket = sim.exec_submit(func, args)

        def fire():
            self.inflight -= 1
            if fut.cancelled():
                sim.exec_complete(ticket, "cancelled")
                return
            try:
                r = func(*args)
            except Exception as e:  # delivered to the awaiting coroutine, as a pool would
                sim.exec_complete(ticket, "error")
                fut.set_exception(e)
            else:
                sim.exec_complete(ticket, "ok")
                fut.set_result(r)

        self.call_later(sim.exec_latency(ticket), fire)
        return fut

    def drain(self):
        """Let every in-flight simulated executor job and pending task finish."""
        async def _w():
            for _ in range(100000):
                others = [t for t in asyncio.all_tasks(self) if t is not asyncio.current_task()]
                if not self.inflight and not others:
                    return
                await asyncio.sleep(0.25)
            raise HarnessError("drain did not converge")

        self.run_until_complete(_w())


class Sim:
    """Per-run simulator state shared by SimLoop / SimStore / SimFS."""

    current: "Sim | None" = None

    def __init__(self, log, latency_rng, latency_mode="uniform"):
        self.log = log
        self.lat = latency_rng
        self.latency_mode = latency_mode
        self.loop = SimLoop(self)
        self.tick = 0
        self.completion_sig = []
        self.nonfifo = 0
        self._outstanding = []

    # executor seam -----------------------------------------------------------------------
    def exec_submit(self, func, args):
        self.tick += 1
        t = self.tick
        self._outstanding.append(t)
        return t

    def exec_latency(self, ticket):
        m = self.latency_mode
        if m == "zero":
            return 0.0
        if m == "fifo":
            return 1e-3
        if m == "bimodal":
            return self.lat.uniform(1e-3, 2e-3) if self.lat.random() < 0.7 else self.lat.uniform(
                0.5, 1.0)
        return self.lat.uniform(1e-3, 1.0)

    def exec_complete(self, ticket, how):
        if self._outstanding and self._outstanding[0] != ticket:
            self.nonfifo += 1
        try:
            pos = self._outstanding.index(ticket)
            self._outstanding.pop(pos)
        except ValueError:
            pos = -1
        self.completion_sig.append(pos)

    def close(self):
        try:
            self.loop.drain()
        finally:
            self.loop.close()


_orig_sync = None
_patched = []


def sim_sync(coro, loop=None, timeout=None):
    sim = Sim.current
    if sim is None:
        coro.close()
        raise HarnessError("zarr sync() called outside a simulation (no Sim.current)")
    import zarr.core.sync as zs

    r = sim.loop.run_until_complete(zs._runner(coro))
    if isinstance(r, BaseException):
        io = getattr(sim, "io", None)
        if io is not None and (sim.loop.inflight or any(
                not t.done() for t in asyncio.all_tasks(sim.loop))):
            # siblings of the failed operation are still in flight (asyncio.gather semantics)
            io.stragglers_seen += 1
            io.log.add("stragglers", sim.loop.inflight)
            if io.straggler_policy == "drain_at_raise":
                sim.loop.drain()
        raise r
    return r


def install():
    """Rebind zarr's sync() in every module that imported it. Idempotent."""
    global _orig_sync
    import zarr
    import zarr.api.synchronous  # noqa: F401
    import zarr.core.array  # noqa: F401
    import zarr.core.group  # noqa: F401
    import zarr.core.sync as zs

    if _orig_sync is None:
        _orig_sync = zs.sync
    n = 0
    for name, mod in list(sys.modules.items()):
        if name.startswith("zarr") and mod is not None:
            for attr in ("sync",):
                if getattr(mod, attr, None) is _orig_sync:
                    setattr(mod, attr, sim_sync)
                    _patched.append(name)
                    n += 1
    if not _patched:
        raise HarnessError("zarr sync seam not found")
    return list(_patched)


def assert_single_thread():
    names = [t.name for t in threading.enumerate()]
    bad = [n for n in names if n != "MainThread" and not n.startswith("QueueFeeder")
           and not n.startswith("Thread-")]
    zarr_threads = [n for n in names if n.startswith("zarr") or "asyncio" in n]
    if zarr_threads:
        raise HarnessError(f"real zarr threads alive: {zarr_threads}")
    return names
