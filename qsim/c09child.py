"""Fresh-interpreter half of C09 workload C: reads a plan (JSON) on stdin, runs the seeded recipe once
and prints 'RESULT <json>'.  Started by the parent with another PYTHONHASHSEED."""
import json
import sys


def main():
    plan = json.loads(sys.stdin.read())
    from qsim.props import c09

    c09.setup()
    print("RESULT " + json.dumps(c09.child_first_run(plan)), flush=True)


if __name__ == "__main__":
    main()
