"""Shared environment for the serializer properties (C01, C05, C08, C14): one SerEnv = one
simulated 'machine' (sandbox directory + Sim + IOState) in which quantem's save()/load() run
single-threaded under the virtual-time loop."""
from __future__ import annotations

import gc
import os
import shutil
import warnings
from pathlib import Path

from . import simloop, simstore
from .core import EventLog, HarnessError, Rng, bump
from .simloop import Sim

ZARR_KNOBS = {
    "async.concurrency": [1, 2, 3, 10],
    "codec_pipeline.batch_size": [1, 2, 4],
    "array.write_empty_chunks": [False, True],
}
LATENCY_MODES = ["uniform", "uniform", "bimodal", "fifo", "zero"]
LIST_MODES = ["shuffle", "shuffle", "sorted", "reverse"]
STRAGGLER = ["drain_at_raise", "drain_at_next_seam", "drain_at_return"]


def gen_env(rng: Rng):
    """Draw the schedule/knob part of a plan."""
    return {
        "zarr": {k: rng.pick(v) for k, v in ZARR_KNOBS.items()},
        "latency": rng.pick(LATENCY_MODES),
        "list_mode": rng.pick(LIST_MODES),
        "straggler": rng.pick(STRAGGLER),
        "sched_seed": rng.randrange(2 ** 32),
        # the interpreter's warning filters are part of the environment: RuntimeWarnings escalated to
        # errors (python -W error::RuntimeWarning) during the library's save()/load() calls
        "warn": rng.fork("warn").pick([None] * 9 + ["runtime"]),
    }


DEFAULT_ENV = {"zarr": {"async.concurrency": 10, "codec_pipeline.batch_size": 1,
                        "array.write_empty_chunks": False},
               "latency": "fifo", "list_mode": "sorted", "straggler": "drain_at_raise",
               "sched_seed": 0}

_setup_done = []


def setup():
    """Once per process (parent, before forking workers)."""
    if _setup_done:
        return
    from . import core

    core.use_repo()
    warnings.filterwarnings("ignore")
    import torch

    torch.set_num_threads(1)
    import zarr  # noqa: F401

    import quantem.core.io.serialize  # noqa: F401
    import qsim_models  # noqa: F401

    simloop.install()
    simstore.install()
    warnings.filterwarnings("ignore", message=r"coroutine '.*' was never awaited")
    _setup_done.append(1)


class SerEnv:
    def __init__(self, env: dict, keep_log=False):
        self.env = env
        self.log = EventLog(keep=keep_log)
        self.rng = Rng(env.get("sched_seed", 0))
        self.sandbox = None
        self.sim = None
        self._zcfg = None

    def __enter__(self):
        import zarr

        if Sim.current is not None:
            raise HarnessError("nested SerEnv")
        self.sandbox = simstore.make_sandbox()
        self.work = os.path.join(self.sandbox, "work")
        os.makedirs(self.work)
        self.sim = Sim(self.log, self.rng.fork("latency"), self.env.get("latency", "uniform"))
        io = simstore.IOState(self.log, self.rng.fork("io"), self.sandbox)
        io.list_mode = self.env.get("list_mode", "shuffle")
        io.straggler_policy = self.env.get("straggler", "drain_at_return")
        self.sim.io = io
        self.io = io
        Sim.current = self.sim
        import tempfile

        self._old_tempdir = tempfile.tempdir
        tempfile.tempdir = io.tmp_root   # mkstemp/NamedTemporaryFile/... also land in the sandbox
        self._old_cwd = os.getcwd()
        # HOME is part of the simulated machine: a scratch home directory inside the sandbox, so
        # that '~' in a target path (path kind "tilde") can never reach the real one
        self._old_home = os.environ.get("HOME")
        self.home = os.path.join(self.work, "home_dir")
        os.environ["HOME"] = self.home
        self._zcfg = zarr.config.set(dict(self.env.get("zarr", {})))
        self._zcfg.__enter__()
        return self

    def __exit__(self, *exc):
        try:
            try:
                self.sim.loop.drain()
            except Exception:
                pass
            self._zcfg.__exit__(None, None, None)
        finally:
            try:
                self.sim.loop.close()
            except Exception:
                pass
            Sim.current = None
            import tempfile

            tempfile.tempdir = self._old_tempdir
            if self._old_home is None:
                os.environ.pop("HOME", None)
            else:
                os.environ["HOME"] = self._old_home
            try:
                os.chdir(self._old_cwd)
            except Exception:
                pass
            gc.collect()  # finalise TemporaryDirectory objects of load() before the sandbox goes
            simstore.drop_sandbox(self.sandbox)
        return False

    # ---------------------------------------------------------------------------------
    def path(self, name, kind="str"):
        p = os.path.join(self.work, name)
        if kind in ("tilde", "tildePath"):
            # spelled '~/name', given verbatim, cwd = the work directory.  The library does not expand
            # '~' (the literal directory './~' is the parent); $HOME/name holds a decoy object
            os.chdir(self.work)
            return Path(name) if kind == "tildePath" else name
        if kind in ("rel", "relPath"):
            # relative to the current directory (the run's work directory)
            os.chdir(self.work)
            return Path(name) if kind == "relPath" else os.path.join(".", name)
        return Path(p) if kind == "Path" else p

    def call(self, fn, armed=None):
        """Run one quantem API call as a fault scope.  Returns (result, exception, scope)."""
        io = self.io
        io.begin_scope(armed)
        res = exc = None
        import contextlib

        ctx = contextlib.nullcontext()
        if getattr(self, "warnings_as_errors", None):
            # the interpreter's warning filters are part of the environment (python -W error,
            # pytest filterwarnings=error): a courtesy warning must not derail a failing save
            ctx = warnings.catch_warnings()
        try:
            with ctx:
                if getattr(self, "warnings_as_errors", None):
                    for cat in self.warnings_as_errors:
                        warnings.simplefilter("error", cat)
                    # asyncio's own "coroutine ... was never awaited" (siblings of a failed store
                    # operation that were never started) is reported from a finaliser and cannot
                    # propagate anyway: keep it out of the logs
                    warnings.filterwarnings("ignore", message=r"coroutine '.*' was never awaited")
                res = fn()
        except Exception as e:  # the property is about failing saves
            exc = e
        except (simstore.SimKeyboardInterrupt, simstore.SimSystemExit) as e:   # injected, never real
            exc = e
        inflight_at_return = self.sim.loop.inflight
        self.sim.loop.drain()
        fired = io.fired_in_scope
        sc = io.end_scope()
        sc["fired"] = fired
        sc["inflight_at_return"] = inflight_at_return
        sc["seams"] = io.trace_seams
        return res, exc, sc

    def _with_env_warnings(self, fn, armed=None):
        if self.env.get("warn") == "runtime" and not getattr(self, "warnings_as_errors", None):
            self.warnings_as_errors = [RuntimeWarning]
            try:
                return self.call(fn, armed)
            finally:
                self.warnings_as_errors = None
        return self.call(fn, armed)

    def save(self, obj, path, armed=None, **kw):
        return self._with_env_warnings(lambda: obj.save(path, **kw), armed)

    def load(self, path, skip=()):
        from quantem.core.io.serialize import load

        return self._with_env_warnings(lambda: load(path, skip=skip) if skip != () else load(path))

    def load_copy(self, path, skip=()):
        """Oracle load that cannot perturb the target (load() of a directory may create
        zarr.json): works on a private copy."""
        cp = os.path.join(self.sandbox, "oracle-copy")
        if os.path.lexists(cp):
            shutil.rmtree(cp, ignore_errors=True) if os.path.isdir(cp) else os.remove(cp)
        p = str(path)
        if os.path.isdir(p):
            shutil.copytree(p, cp)
        elif os.path.isfile(p):
            shutil.copyfile(p, cp)
        else:
            return None, FileNotFoundError(p), {}
        tmp_before = set(self.tmp_entries())
        out = self.load(cp, skip)
        # load() extracts zips into a TemporaryDirectory that is only removed when the garbage
        # collector finalises it; the harness removes it so that later staging checks see only
        # what save() left behind
        for n in set(self.tmp_entries()) - tmp_before:
            shutil.rmtree(os.path.join(self.io.tmp_root, n), ignore_errors=True)
        if os.path.isdir(cp):
            shutil.rmtree(cp, ignore_errors=True)
        elif os.path.lexists(cp):
            os.remove(cp)
        return out

    def tmp_entries(self):
        return sorted(os.listdir(self.io.tmp_root))

    def finish(self, res):
        """Fold the env's counters into a run result."""
        io, sim = self.io, self.sim
        for k, v in io.faults_fired.items():
            bump(res["faults"], k, v)
        for k, v in io.probes.items():
            bump(res["probes"], k, v)
        if sim.nonfifo:
            bump(res["probes"], "completion_order_nonfifo", sim.nonfifo)
        res["sim_time"] += sim.loop.time()
        res["steps"] += sum(io.counts.values())
        for k in ("set_sync", "get_sync", "delete_sync"):
            if io.counts.get(k):
                bump(res["obs"], f"zarr_sync_fastpath_{k}", io.counts[k])
        return res
