"""E-core driver: worker pool, aggregation, known-findings matching, minimisation, replay,
evidence.  Exit codes: 0 held (maybe KNOWN-FINDING lines), 1 VIOLATION, 2 HARNESS-ERROR."""
from __future__ import annotations

import faulthandler
import importlib
import hashlib
import json
import multiprocessing
import os
import re
import sys
import traceback
from concurrent.futures import ProcessPoolExecutor, wait, FIRST_COMPLETED
from concurrent.futures.process import BrokenProcessPool

from . import core
from .core import Rng, derive, wall, jdump

PROPS = ["C01", "C03", "C04", "C05", "C08", "C09", "C11", "C14", "C18", "C19"]
RUN_WALL_LIMIT = int(os.environ.get("QSIM_RUN_LIMIT", "900"))  # seconds, per run (hang guard)


def load_prop(pid: str):
    if pid not in PROPS:
        raise core.HarnessError(f"unknown / unclaimed property {pid}")
    return importlib.import_module(f"qsim.props.{pid.lower()}")


# ------------------------------------------------------------------------------------------
# worker side
_PROP = None


def _init_worker():
    # children are forked from a parent that already ran prop.setup(); nothing to import
    try:
        import torch

        torch.set_num_threads(1)
    except Exception:
        pass


def safe_run(prop, plan):
    """prop.run(plan); an exception that escapes from inside the library under test at a place where
    the harness did not expect one is a VIOLATION (the operation must not raise), not a harness
    error.  Exceptions from harness code propagate."""
    from .knobs import KNOBS

    applied = KNOBS.apply(plan.get("run_seed", 0))
    try:
        res = prop.run(plan)
        for k, v in applied.items():
            core.bump(res["probes"], f"knob:{k.rsplit('.', 1)[-1].rsplit(':', 1)[-1]}:" + (
                "lowered" if v <= 20011 else "shipped"))
        return res
    except core.HarnessError:
        raise
    except Exception as e:
        where = core.library_frame(e)
        if where is None:
            raise
        res = core.new_result()
        res["violations"].append(core.Violation(
            "library_raised_unexpectedly",
            f"{type(e).__name__}: {e} (raised in {where} during an operation or read that must "
            f"succeed)", f"library_raised_unexpectedly:{type(e).__name__}:{where}"))
        res["digest"] = "raised:" + core.plan_digest(plan)
        return res
    finally:
        KNOBS.restore()


def run_one(prop, tier: str, master: int, i: int, keep_plan=False):
    run_seed = derive(master, prop.ID, tier, i)
    plan = prop.gen(Rng(run_seed), tier, i)
    plan["run_seed"] = run_seed
    res = safe_run(prop, plan)
    return plan, res


def _work(pid: str, tier: str, master: int, idxs, want_digests=False):
    """Executes a chunk of runs; returns one aggregated record."""
    prop = load_prop(pid)
    agg = {
        "n": 0,
        "faults": {},
        "probes": {},
        "nontrivial": set(),
        "sched": set(),
        "sim_time": 0.0,
        "steps": 0,
        "viol": [],
        "samples": [],
        "digests": {},
        "obs": {},
        "harness_error": None,
    }
    for i in idxs:
        faulthandler.dump_traceback_later(RUN_WALL_LIMIT, exit=True)
        try:
            plan, res = run_one(prop, tier, master, i)
        except Exception:
            agg["harness_error"] = f"run {pid}/{tier}/{i}: " + traceback.format_exc()
            faulthandler.cancel_dump_traceback_later()
            return agg
        faulthandler.cancel_dump_traceback_later()
        agg["n"] += 1
        for k, v in res["faults"].items():
            core.bump(agg["faults"], k, v)
        for k, v in res["probes"].items():
            core.bump(agg["probes"], k, v)
        for k, v in res.get("obs", {}).items():
            core.bump(agg["obs"], k, v)
        if res["nontrivial"] is not None:
            nt = res["nontrivial"]
            if isinstance(nt, (list, tuple, set)):
                agg["nontrivial"].update(nt)
            else:
                agg["nontrivial"].add(nt)
        for s in res["sched"]:
            agg["sched"].add(s)
        agg["sim_time"] += res["sim_time"]
        agg["steps"] += res["steps"]
        if want_digests:
            agg["digests"][i] = (res["digest"], sorted(v["oracle"] for v in res["violations"]))
        if res["violations"]:
            if len(agg["viol"]) < 20:
                agg["viol"].append({"i": i, "plan": plan, "violations": res["violations"],
                                    "digest": res["digest"]})
        if i < 4 and not res["violations"]:
            agg["samples"].append({"i": i, "plan": _clip(plan)})
    return agg


def _clip(o, depth=0):
    """Bound the size of a plan written as an evidence sample."""
    if depth > 6:
        return "..."
    if isinstance(o, dict):
        return {k: _clip(v, depth + 1) for k, v in list(o.items())[:24]}
    if isinstance(o, list):
        out = [_clip(v, depth + 1) for v in o[:16]]
        if len(o) > 16:
            out.append(f"... {len(o) - 16} more")
        return out
    if isinstance(o, str) and len(o) > 200:
        return o[:200] + "..."
    return o


def _replay_work(pid: str, plan):
    prop = load_prop(pid)
    faulthandler.dump_traceback_later(RUN_WALL_LIMIT, exit=True)
    try:
        res = safe_run(prop, plan)
    except Exception:
        return {"harness_error": traceback.format_exc()}
    finally:
        faulthandler.cancel_dump_traceback_later()
    return {"violations": res["violations"], "digest": res["digest"]}


# ------------------------------------------------------------------------------------------
# known findings
def load_findings():
    p = os.path.join(core.VERIF_DIR, "known_findings.json")
    if not os.path.exists(p):
        return {"open": [], "fixed": []}
    with open(p) as f:
        return json.load(f)


def match_finding(findings, pid, v):
    for f in findings.get("open", []):
        if f["property"] != pid or f["oracle"] != v["oracle"]:
            continue
        if re.search(f["sig_regex"], v["sig"]):
            return f
    return None


# ------------------------------------------------------------------------------------------
def _pool(jobs):
    ctx = multiprocessing.get_context("fork")
    return ProcessPoolExecutor(max_workers=jobs, mp_context=ctx, initializer=_init_worker)


def execute(prop, tier, master, jobs, runs=None, budget_s=None, want_digests=False, chunk=None,
            indices=None):
    """Run the tier's runs on a fork pool; returns the merged aggregate."""
    cfg = dict(prop.TIERS[tier])
    runs = runs if runs is not None else cfg["runs"]
    budget_s = budget_s if budget_s is not None else cfg.get("budget_s", 1e9)
    chunk = chunk or cfg.get("chunk", 8)
    idx_all = list(indices) if indices is not None else list(range(runs))
    chunks = [idx_all[k:k + chunk] for k in range(0, len(idx_all), chunk)]
    total = {
        "n": 0, "faults": {}, "probes": {}, "nontrivial": set(), "sched": set(), "sim_time": 0.0,
        "steps": 0, "viol": [], "samples": [], "digests": {}, "obs": {}, "harness_error": None,
        "budget_exhausted": False, "planned": len(idx_all),
    }
    t0 = wall()
    pending = set()
    it = iter(chunks)
    ex = _pool(jobs)
    try:
        def submit_more():
            while len(pending) < 2 * jobs:
                if wall() - t0 > budget_s:
                    total["budget_exhausted"] = True
                    return
                c = next(it, None)
                if c is None:
                    return
                pending.add(ex.submit(_work, prop.ID, tier, master, c, want_digests))

        submit_more()
        while pending:
            done, _ = wait(pending, return_when=FIRST_COMPLETED)
            for fu in done:
                pending.discard(fu)
                a = fu.result()
                if a["harness_error"]:
                    total["harness_error"] = a["harness_error"]
                total["n"] += a["n"]
                for k in ("faults", "probes", "obs"):
                    for kk, v in a[k].items():
                        core.bump(total[k], kk, v)
                total["nontrivial"] |= a["nontrivial"]
                total["sched"] |= a["sched"]
                total["sim_time"] += a["sim_time"]
                total["steps"] += a["steps"]
                total["viol"].extend(a["viol"])
                total["samples"].extend(a["samples"])
                total["digests"].update(a["digests"])
            if total["harness_error"]:
                break
            submit_more()
    except BrokenProcessPool:
        total["harness_error"] = "worker died (crash or per-run wall limit); see stderr"
    finally:
        ex.shutdown(wait=False, cancel_futures=True)
    total["wall_s"] = wall() - t0
    total["viol"].sort(key=lambda r: r["i"])
    total["samples"].sort(key=lambda r: r["i"])
    return total


def _same_class(res, oracle):
    return any(v["oracle"] == oracle for v in res.get("violations", []))


def minimise(prop, plan, oracle, jobs, max_runs=400, max_s=120):
    """Greedy parallel shrinking: evaluate candidate plans from prop.shrink(plan) in order,
    accept the first that still violates the same oracle, restart from it."""
    t0 = wall()
    n = 0
    steps_before = prop.plan_size(plan) if hasattr(prop, "plan_size") else None
    ex = _pool(min(jobs, 8))
    try:
        improved = True
        while improved and n < max_runs and wall() - t0 < max_s:
            improved = False
            cands = prop.shrink(plan)
            batch = []
            exhausted = False
            while not exhausted and not improved and n < max_runs and wall() - t0 < max_s:
                batch = []
                for _ in range(min(jobs, 8)):
                    c = next(cands, None)
                    if c is None:
                        exhausted = True
                        break
                    batch.append(c)
                if not batch:
                    break
                futs = [ex.submit(_replay_work, prop.ID, c) for c in batch]
                for c, fu in zip(batch, futs):
                    n += 1
                    try:
                        r = fu.result(timeout=RUN_WALL_LIMIT + 10)
                    except Exception:
                        continue
                    if "harness_error" in r:
                        continue
                    if _same_class(r, oracle) and not improved:
                        plan = c
                        improved = True
                # on improvement drop the rest of this candidate stream and restart
    except BrokenProcessPool:
        pass
    finally:
        ex.shutdown(wait=False, cancel_futures=True)
    steps_after = prop.plan_size(plan) if hasattr(prop, "plan_size") else None
    return plan, {"shrink_runs": n, "steps_before": steps_before, "steps_after": steps_after}


def write_replay(pid, plan, violation, digest, meta):
    d = os.environ.get("QSIM_REPLAY_DIR") or os.path.join(core.VERIF_DIR, "replays")
    os.makedirs(d, exist_ok=True)
    # one file per (run, oracle, class of failure): the class signature is part of the name
    sig4 = hashlib.blake2b(str(violation.get("sig", "")).encode(), digest_size=2).hexdigest()
    name = f"{pid}-{plan.get('run_seed', 0):016x}-{violation['oracle']}-{sig4}.json"
    name = re.sub(r"[^A-Za-z0-9_.\-]", "_", name)
    path = os.path.join(d, name)
    with open(path, "w") as f:
        from .knobs import KNOBS

        json.dump({"property": pid, "plan": plan, "violation": violation, "digest": digest,
                   "tuning_knobs_in_this_run": KNOBS.values_for(plan.get("run_seed", 0)),
                   **meta}, f, indent=1, sort_keys=True, default=core._jd)
    return path


def _knobs_found():
    from .knobs import discover, discover_literals

    return ([f"{m}.{n}={v}" for m, n, v in discover()] + [
        f"{qn}: literal {c}" for qn, _, lits in discover_literals() for c in lits]) or [
        "(none: no module-level size/chunk/buffer constants and no power-of-two size literals in the "
        "functions of the modules under test; knob randomisation idle)"]


def write_evidence(prop, tier, master, total, n_viol, known_seen, extra=None):
    d = os.environ.get("QSIM_EVIDENCE_DIR") or os.path.join(core.VERIF_DIR, "evidence")
    os.makedirs(d, exist_ok=True)
    wall_s = max(total.get("wall_s", 0.0), 1e-9)
    cov = {
        "evaluations": int(total["n"]),
        "distinct_nontrivial": int(len(total["nontrivial"])),
        "rule": prop.RULE,
        "samples": [s["plan"] for s in total["samples"][:4]] or ["(no clean sample retained)"],
        "planned_runs": total.get("planned"),
        "budget_exhausted": total.get("budget_exhausted", False),
        "runs_per_hour": round(total["n"] / wall_s * 3600.0, 1),
        "sim_time_s": round(total["sim_time"], 3),
        "sim_time_note": getattr(prop, "SIM_TIME_NOTE", "virtual seconds advanced by SimLoop"),
        "steps": int(total["steps"]),
        "fault_counts_fired": dict(sorted(total["faults"].items())),
        "probes": dict(sorted(total["probes"].items())),
        "probes_expected_nonzero_but_zero": sorted(
            p for p in getattr(prop, "EXPECTED_PROBES", []) if not total["probes"].get(p)),
        "distinct_schedules": int(len(total["sched"])),
        "distinct_schedules_measure": getattr(prop, "SCHED_MEASURE", ""),
        "observations_beyond_property": dict(sorted(total["obs"].items())),
        "components_real": prop.COMPONENTS_REAL,
        "components_stub": prop.COMPONENTS_STUB,
        "known_findings_seen": known_seen,
        "seeds": {"master": master, "first_run_seed": derive(master, prop.ID, tier, 0),
                  "derivation": "blake2b(master, property, tier, index)"},
        "repo": core.REPO,
        "jobs": total.get("jobs"),
        "tuning_knobs_found": _knobs_found(),
    }
    if extra:
        cov.update(extra)
    ev = {
        "property_id": prop.ID,
        "tier": tier,
        "seed": int(master),
        "level": prop.LEVEL,
        "coverage": cov,
        "assumptions": prop.ASSUMPTIONS,
        "wall_s": round(total.get("wall_s", 0.0), 2),
        "violations": int(n_viol),
    }
    path = os.path.join(d, f"{prop.ID}.json")
    tmp = path + ".tmp"
    with open(tmp, "w") as f:
        json.dump(ev, f, indent=1, sort_keys=True, default=core._jd)
    os.replace(tmp, path)
    return path


def run_check(pid: str, tier: str) -> int:
    master = int(os.environ.get("VERIF_SEED", "0"))
    jobs = int(os.environ.get("VERIF_JOBS", str(os.cpu_count() or 4)))
    prop = load_prop(pid)
    print(f"[qsim] property={pid} tier={tier} VERIF_SEED={master} jobs={jobs} repo={core.REPO}",
          flush=True)
    try:
        prop.setup()
    except Exception:
        print("HARNESS-ERROR setup failed:\n" + traceback.format_exc(), flush=True)
        return 2
    total = execute(prop, tier, master, jobs)
    total["jobs"] = jobs
    if total["harness_error"]:
        print("HARNESS-ERROR " + total["harness_error"], flush=True)
        return 2
    findings = load_findings()
    known_seen = {}
    groups = {}
    for rec in total["viol"]:
        for v in rec["violations"]:
            f = match_finding(findings, pid, v)
            if f is not None:
                known_seen.setdefault(f["id"], {"what": f["what"], "count": 0})
                known_seen[f["id"]]["count"] += 1
                continue
            groups.setdefault((v["oracle"], v["sig"]), []).append((rec, v))
    for fid, k in sorted(known_seen.items()):
        print(f"KNOWN-FINDING: property={pid} {fid} {k['what']} (seen {k['count']}x)", flush=True)
    n_viol = 0
    extra = {}
    if groups:
        reported = []
        for (oracle, sig), lst in sorted(groups.items())[:3]:
            rec, v = lst[0]
            plan = rec["plan"]
            if v.get("narrow"):  # e.g. the single fault position of a sweep that failed
                plan = {**plan, **v["narrow"]}
            meta = {"tier": tier, "master_seed": master, "index": rec["i"], "minimised": False}
            if os.environ.get("QSIM_NO_SHRINK") != "1" and hasattr(prop, "shrink"):
                try:
                    plan2, m = minimise(prop, plan, oracle, jobs)
                    r = _replay_inproc_pool(prop, plan2)
                    if r and _same_class(r, oracle):
                        v2 = next(x for x in r["violations"] if x["oracle"] == oracle)
                        plan, v, digest = plan2, v2, r["digest"]
                        meta.update(m, minimised=True)
                    else:
                        digest = rec["digest"]
                except Exception:
                    traceback.print_exc()
                    digest = rec["digest"]
            else:
                digest = rec["digest"]
            path = write_replay(pid, plan, v, digest, meta)
            print(f"VIOLATION property={pid} replay={path}", flush=True)
            print(f"  oracle={v['oracle']} sig={v['sig']} detail={v['detail']}", flush=True)
            reported.append({"oracle": oracle, "sig": sig, "replay": path, "count": len(lst)})
        n_viol = sum(len(l) for l in groups.values())
        extra["violation_classes"] = reported
        extra["all_violation_classes"] = [
            {"oracle": o, "sig": s_, "count": len(l), "first_index": l[0][0]["i"],
             "detail": l[0][1]["detail"][:300]}
            for (o, s_), l in sorted(groups.items())]
        for c in extra["all_violation_classes"][3:]:
            print(f"  (also) oracle={c['oracle']} sig={c['sig']} count={c['count']} "
                  f"first_index={c['first_index']}", flush=True)
    ev = write_evidence(prop, tier, master, total, n_viol, known_seen, extra)
    zero = [p for p in getattr(prop, "EXPECTED_PROBES", []) if not total["probes"].get(p)]
    if zero and tier == "thorough":
        print(f"[qsim] WARNING probes at zero: {zero}", flush=True)
    print(f"[qsim] {pid} {tier}: runs={total['n']}/{total['planned']} "
          f"distinct_nontrivial={len(total['nontrivial'])} schedules={len(total['sched'])} "
          f"faults_fired={sum(total['faults'].values())} violations={n_viol} "
          f"known={len(known_seen)} wall={total['wall_s']:.1f}s evidence={ev}", flush=True)
    return 1 if n_viol else 0


def _replay_inproc_pool(prop, plan):
    ex = _pool(1)
    try:
        return ex.submit(_replay_work, prop.ID, plan).result(timeout=RUN_WALL_LIMIT + 10)
    except Exception:
        return None
    finally:
        ex.shutdown(wait=False, cancel_futures=True)


def replay(pid: str, path: str) -> int:
    prop = load_prop(pid)
    with open(path) as f:
        rp = json.load(f)
    if rp.get("property") != pid:
        print(f"HARNESS-ERROR replay file is for {rp.get('property')}, not {pid}")
        return 2
    try:
        prop.setup()
        res = safe_run(prop, rp["plan"])
    except Exception:
        print("HARNESS-ERROR replay failed:\n" + traceback.format_exc(), flush=True)
        return 2
    want = rp["violation"]["oracle"]
    got = [v for v in res["violations"] if v["oracle"] == want]
    print(f"[qsim] replay {path}: recorded oracle={want} digest={rp.get('digest')}; "
          f"now violations={[v['oracle'] for v in res['violations']]} digest={res['digest']}")
    if got:
        same = (res["digest"] == rp.get("digest"))
        print(f"VIOLATION property={pid} replay={path}")
        print(f"  oracle={got[0]['oracle']} sig={got[0]['sig']} detail={got[0]['detail']} "
              f"digest_identical={same}")
        return 1
    print("NOT-REPRODUCED (the recorded violation does not occur on this tree)")
    return 0
