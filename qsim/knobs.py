"""Tuning-knob randomisation ("buggify the knobs").

Correctness must not depend on one configuration of a size/chunk/buffer constant: a chunked code
path that only runs above 2**24 elements is a blind spot for any workload of simulator size.  Before
every run the driver lowers the library's *module-level integer tuning constants* to seeded small
values, so that chunked / blocked / buffered paths run on small inputs; afterwards they are
restored.  A knob is recognised conservatively:

  * module-level name in a quantem.* module, upper case (leading underscores allowed),
  * value of exact type int and >= 16,
  * the name contains a size-tuning word (CHUNK, BLOCK, SLAB, TILE, ELEMENTS, ELEMS, BYTES, BUFFER,
    BATCH).

A constant that passes this test only says how much work is done per pass; every property claimed
here is stated for all batch/chunk sizes, so lowering it cannot make a correct tree fail.  The values
are a pure function of (run_seed, module, name): a replay on the same tree sets the same values.
At the pinned commit no module defines such a constant (knobs_found is empty in the evidence), so
the shipped behaviour is what runs.
"""
from __future__ import annotations

import re
import sys

from .core import derive

_WORD = re.compile(r"(CHUNK|BLOCK|SLAB|TILE|ELEMENTS|ELEMS|BYTES|BUFFER|BATCH)")
_SMALL = [1, 2, 3, 5, 8, 17, 64, 257, 1000, 4099, 20011]


def discover():
    out = []
    for mname in sorted(sys.modules):
        if not (mname == "quantem" or mname.startswith("quantem.")):
            continue
        mod = sys.modules[mname]
        if mod is None:
            continue
        for name, val in sorted(vars(mod).items()):
            if type(val) is int and val >= 16 and name.strip("_").isupper() and _WORD.search(name):
                # only where the constant is defined (not `from x import KNOB` copies: patch those too,
                # they are separate bindings and the code reads its own module's binding)
                out.append((mname, name, val))
    return out


class Knobs:
    def __init__(self):
        self.found = None
        self._nmod = -1
        self.saved = []

    def apply(self, run_seed):
        nmod = sum(1 for m in sys.modules if m.startswith("quantem"))
        if self.found is None or nmod != self._nmod:
            self.found = discover()
            self._nmod = nmod
        applied = {}
        by_name = {}
        for mname, name, val in self.found:
            key = (name, val)        # re-exported copies of one constant get the same value
            if key not in by_name:
                h = derive(run_seed, "knob", name)
                by_name[key] = val if h % 4 == 0 else _SMALL[(h >> 8) % len(_SMALL)]
            new = by_name[key]
            mod = sys.modules.get(mname)
            if mod is None:
                continue
            self.saved.append((mod, name, val))
            setattr(mod, name, new)
            applied[f"{mname}.{name}"] = new
        return applied

    def values_for(self, run_seed):
        """Informational (replay files): the values a run with this seed uses on the current tree."""
        try:
            v = self.apply(run_seed)
        finally:
            self.restore()
        return v

    def restore(self):
        for mod, name, val in self.saved:
            setattr(mod, name, val)
        self.saved = []


KNOBS = Knobs()
