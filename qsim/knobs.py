"""Tuning-knob randomisation ("buggify the knobs").

Correctness must not depend on one configuration of a size/chunk/buffer constant: a chunked code
path that only runs above 2**24 elements is a blind spot for any workload of simulator size.  Before
every run the driver lowers the library's *module-level integer tuning constants* to seeded small
values, so that chunked / blocked / buffered paths run on small inputs; afterwards they are
restored.  A knob is recognised conservatively:

  * module-level name in a quantem.* module, upper case (leading underscores allowed),
  * value of exact type int and >= 16,
  * the name contains a size-tuning word (CHUNK, BLOCK, SLAB, TILE, ELEMENTS, ELEMS, BYTES, BUFFER,
    BATCH).

A constant that passes this test only says how much work is done per pass; every property claimed
here is stated for all batch/chunk sizes, so lowering it cannot make a correct tree fail.  The values
are a pure function of (run_seed, module, name): a replay on the same tree sets the same values.
At the pinned commit no module defines such a constant (knobs_found is empty in the evidence), so
the shipped behaviour is what runs.
"""
from __future__ import annotations

import re
import sys

from .core import derive

_WORD = re.compile(r"(CHUNK|BLOCK|SLAB|TILE|ELEMENTS|ELEMS|BYTES|BUFFER|BATCH)")
_SMALL = [1, 2, 3, 5, 8, 17, 64, 257, 1000, 4099, 20011]


def discover():
    out = []
    for mname in sorted(sys.modules):
        if not (mname == "quantem" or mname.startswith("quantem.")):
            continue
        mod = sys.modules[mname]
        if mod is None:
            continue
        for name, val in sorted(vars(mod).items()):
            if type(val) is int and val >= 16 and name.strip("_").isupper() and _WORD.search(name):
                # only where the constant is defined (not `from x import KNOB` copies: patch those too,
                # they are separate bindings and the code reads its own module's binding)
                out.append((mname, name, val))
    return out


# ---- size thresholds written as LITERALS inside functions --------------------------------------------
# `if n > 2**24:` / `block = 2**23 // row_bytes` never shows up as a module attribute.  Integer literals
# that are powers of two between 2**16 and 2**30 (2**31, 2**32, 2**63, 2**64 are integer-range constants
# and excluded by the bounds) in functions of the library modules under test are such thresholds with
# overwhelming likelihood; they are replaced in the function's code object (co_consts) for the
# duration of a run.  At the pinned commit no function of these modules has one.
_LIT_MODULES = ("quantem.diffractive_imaging", "quantem.core.io", "quantem.core.datastructures",
                "quantem.core.utils", "quantem.core.config")
_LIT_SMALL = [64, 1000, 4099, 20011]


def _eligible(c):
    return type(c) is int and (1 << 16) <= c <= (1 << 30) and c & (c - 1) == 0


def _code_literals(code, out):
    import types

    for c in code.co_consts:
        if isinstance(c, types.CodeType):
            _code_literals(c, out)
        elif _eligible(c):
            out.add(c)


def _subst(code, mapping):
    import types

    new = []
    for c in code.co_consts:
        if isinstance(c, types.CodeType):
            new.append(_subst(c, mapping))
        elif _eligible(c) and c in mapping:
            new.append(mapping[c])
        else:
            new.append(c)
    return code.replace(co_consts=tuple(new))


def discover_literals():
    import types

    out, seen = [], set()
    for mname in sorted(sys.modules):
        if not mname.startswith(_LIT_MODULES):
            continue
        mod = sys.modules[mname]
        if mod is None:
            continue
        for name, obj in sorted(vars(mod).items(), key=lambda kv: kv[0]):
            fns = []
            if isinstance(obj, types.FunctionType) and obj.__module__ == mname:
                fns.append((name, obj))
            elif isinstance(obj, type) and obj.__module__ == mname:
                for n2, o2 in sorted(vars(obj).items(), key=lambda kv: kv[0]):
                    f = o2.__func__ if isinstance(o2, (staticmethod, classmethod)) else (
                        o2.fget if isinstance(o2, property) else o2)
                    if isinstance(f, types.FunctionType):
                        fns.append((f"{name}.{n2}", f))
            for qn, f in fns:
                if id(f) in seen:
                    continue
                seen.add(id(f))
                lits = set()
                _code_literals(f.__code__, lits)
                if lits:
                    out.append((f"{mname}:{qn}", f, sorted(lits)))
    return out


class Knobs:
    def __init__(self):
        self.found = None
        self.lits = None
        self._nmod = -1
        self.saved = []
        self.saved_code = []

    def apply(self, run_seed):
        nmod = sum(1 for m in sys.modules if m.startswith("quantem"))
        if self.found is None or nmod != self._nmod:
            self.found = discover()
            self.lits = discover_literals()
            self._nmod = nmod
        applied = {}
        by_name = {}
        for mname, name, val in self.found:
            key = (name, val)        # re-exported copies of one constant get the same value
            if key not in by_name:
                h = derive(run_seed, "knob", name)
                by_name[key] = val if h % 4 == 0 else _SMALL[(h >> 8) % len(_SMALL)]
            new = by_name[key]
            mod = sys.modules.get(mname)
            if mod is None:
                continue
            self.saved.append((mod, name, val))
            setattr(mod, name, new)
            applied[f"{mname}.{name}"] = new
        for qn, f, lits in self.lits or ():
            mapping = {}
            for c in lits:
                h = derive(run_seed, "literal", qn, c)
                if h % 4:
                    mapping[c] = _LIT_SMALL[(h >> 8) % len(_LIT_SMALL)]
            if mapping:
                self.saved_code.append((f, f.__code__))
                f.__code__ = _subst(f.__code__, mapping)
            for c in lits:
                applied[f"{qn}#literal{c}"] = mapping.get(c, c)
        return applied

    def values_for(self, run_seed):
        """Informational (replay files): the values a run with this seed uses on the current tree."""
        try:
            v = self.apply(run_seed)
        finally:
            self.restore()
        return v

    def restore(self):
        for mod, name, val in self.saved:
            setattr(mod, name, val)
        self.saved = []
        for f, code in self.saved_code:
            f.__code__ = code
        self.saved_code = []


KNOBS = Knobs()
