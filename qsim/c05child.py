"""Fresh-interpreter half of C05: reads {cfg, env, path} (JSON) on stdin, loads the checkpoint with
Ptychography.from_file under its own simulator, continues for two iterations and prints
'RESULT <json>'.  Started by the parent with another PYTHONHASHSEED."""
import json
import sys


def main():
    req = json.loads(sys.stdin.read())
    from qsim.props import c05

    c05.setup()
    print("RESULT " + json.dumps(c05.child_reload_and_continue(req)), flush=True)


if __name__ == "__main__":
    main()
