"""E-simio part 2: SimStore (instrumented LocalStore), SimFS proxies for the module-level names
the serializer uses, per-run sandbox, fault arming.

All state lives in `Sim.current.io` (an IOState); with no simulation active the proxies
delegate transparently."""
from __future__ import annotations

import asyncio
import errno
import hashlib
import os as _os
import shutil as _shutil
import tempfile as _tempfile
import zipfile as _zipfile

from zarr.storage import LocalStore as _LocalStore

from .core import HarnessError, bump
from .simloop import Sim

SHM = "/dev/shm" if _os.path.isdir("/dev/shm") and _os.access("/dev/shm", _os.W_OK) else "/var/tmp"


class SimKeyboardInterrupt(KeyboardInterrupt):
    """An injected Ctrl-C (a BaseException that is not an Exception): the most ordinary way a long
    save is interrupted.  A subclass, so that the harness never swallows a real one."""


class SimSystemExit(SystemExit):
    """An injected sys.exit() (e.g. from a signal handler) in the middle of a save."""


def _injected(kind="ENOSPC"):
    """The injected failure: OSError with a given errno, or another exception type by name."""
    other = {"ValueError": ValueError, "RuntimeError": RuntimeError, "MemoryError": MemoryError,
             "TypeError": TypeError, "KeyError": KeyError, "PermissionError": PermissionError,
             "TimeoutError": TimeoutError, "KeyboardInterrupt": SimKeyboardInterrupt,
             "SystemExit": SimSystemExit}
    if kind in other:
        return other[kind](f"injected {kind}")
    code = getattr(errno, kind, errno.EIO)
    return OSError(code, f"injected {kind}")


class IOState:
    """Counters, fault plan and listing/walk randomness of one run."""

    def __init__(self, log, rng, sandbox):
        self.log = log
        self.rng = rng
        self.list_rng = rng.fork("listing")
        self.walk_rng = rng.fork("walk")
        self.sandbox = sandbox
        self.tmp_root = _os.path.join(sandbox, "tmp")
        _os.makedirs(self.tmp_root, exist_ok=True)
        self.tmp_n = 0
        self.counts = {}          # op kind -> n (whole run)
        self.faults_fired = {}
        self.armed = None         # dict describing the single armed fault of the current op
        self.scope = {}           # counters of the current armed scope (one save call)
        self.in_scope = False
        self.list_mode = "shuffle"
        self.straggler_policy = "drain_at_return"
        self.stragglers_seen = 0
        self.trace_seams = []     # (name, detail) of SimFS seam calls in the current scope
        self.probes = {}
        self.chunks = {}          # array path -> number of chunk writes

    # ---- scope: one quantem API call during which faults may fire ----------------------
    def begin_scope(self, armed=None):
        self.scope = {"store": 0, "zip_write": 0, "ser": 0, "makedirs": 0, "tempdir": 0,
                      "zip_open": 0, "zip_close": 0, "rmtree": 0, "remove": 0}
        self.armed = dict(armed) if armed else None
        self.in_scope = True
        self.trace_seams = []
        self.fired_in_scope = None

    def end_scope(self):
        self.in_scope = False
        sc, self.scope = self.scope, {}
        self.armed = None
        return sc

    def _rel(self, p):
        p = str(p)
        if p.startswith(self.sandbox):
            p = p[len(self.sandbox):].lstrip("/")
            parts = p.split("/")
            if parts and parts[0] == "tmp" and len(parts) > 1:
                parts[1] = "<t>"
            return "/".join(parts)
        return p

    def seam(self, name, detail=""):
        """Called by every SimFS proxy entry: logs, and applies the straggler policy."""
        sim = Sim.current
        if sim is not None and self.straggler_policy == "drain_at_next_seam" and sim.loop.inflight:
            sim.loop.drain()
        self.log.add("fs", name, detail)
        if self.in_scope:
            self.trace_seams.append((name, detail))

    def counter(self, which):
        """Advance and return the ordinal (0-based) of an event class within the scope."""
        k = self.scope.get(which, 0)
        self.scope[which] = k + 1
        return k

    def should_fire(self, which, k, when=None):
        a = self.armed
        if not self.in_scope or a is None or a.get("fired"):
            return False
        if a["kind"] != which or a["k"] != k:
            return False
        if when is not None and a.get("when", "before") != when:
            return False
        a["fired"] = True
        self.fired_in_scope = dict(a)
        bump(self.faults_fired, f"{which}:{a.get('when', 'before')}" if which in (
            "store", "zip_write") else which)
        self.log.add("FAULT", which, k, a.get("when", ""))
        return True


def _sticky(io):
    """A fired fault marked `sticky` models a condition that persists for the rest of the API call
    (the disk stays full, the device stays gone): every LATER write-type operation of the same
    scope fails too - stragglers in flight, writes of a handler, a retry. Deletes still work (that
    is how a full disk is recovered from; failing the clean-up itself is outside C08)."""
    a = io.armed
    if not io.in_scope or not a or not a.get("fired") or not a.get("sticky"):
        return None
    bump(io.faults_fired, "sticky_refire")
    io.log.add("STICKY", "write refused")
    return _injected(a.get("errno", "ENOSPC") if a.get("errno") in ("ENOSPC", "EIO", "EACCES",
                                                                   "PermissionError") else "ENOSPC")


def _io() -> IOState | None:
    s = Sim.current
    return getattr(s, "io", None) if s is not None else None


def _raiser(exc):
    raise exc


# ------------------------------------------------------------------------------------------
class SimStore(_LocalStore):
    """LocalStore doing real file I/O in the sandbox, with op log, fault points and seeded
    listing order."""

    async def _op(self, kind, key, thunk):
        io = _io()
        if io is None:
            return await thunk()
        bump(io.counts, kind)
        if kind == "set" and "/c/" in key:
            bump(io.chunks, key.split("/c/")[0])
        k = io.counter("store")
        io.log.add("s", k if io.in_scope else "-", kind, key)
        if io.should_fire("store", k, "before"):
            # the error surfaces when the blocking call runs, i.e. at a simulated completion
            # instant, while sibling operations are still in flight
            await asyncio.to_thread(_raiser, _injected(io.armed.get("errno", "ENOSPC")))
        elif kind in ("set", "set_if_not_exists"):
            exc = _sticky(io)
            if exc is not None:
                await asyncio.to_thread(_raiser, exc)
        r = await thunk()
        io.log.add("c", kind, key)
        if io.should_fire("store", k, "after"):
            raise _injected(io.armed.get("errno", "EIO"))
        return r

    async def get(self, key, prototype=None, byte_range=None):
        return await self._op("get", key, lambda: _LocalStore.get(self, key, prototype, byte_range))

    async def set(self, key, value):
        return await self._op("set", key, lambda: _LocalStore._set(self, key, value))

    async def set_if_not_exists(self, key, value):
        async def th():
            try:
                return await _LocalStore._set(self, key, value, exclusive=True)
            except FileExistsError:
                return None

        return await self._op("set_if_not_exists", key, th)

    async def delete(self, key):
        return await self._op("delete", key, lambda: _LocalStore.delete(self, key))

    async def delete_dir(self, prefix):
        return await self._op("delete_dir", prefix, lambda: _LocalStore.delete_dir(self, prefix))

    async def exists(self, key):
        return await self._op("exists", key, lambda: _LocalStore.exists(self, key))

    async def get_partial_values(self, prototype, key_ranges):
        kr = list(key_ranges)
        return await self._op("get_partial", ",".join(k for k, _ in kr),
                              lambda: _LocalStore.get_partial_values(self, prototype, kr))

    async def list_dir(self, prefix):
        io = _io()
        items = [x async for x in _LocalStore.list_dir(self, prefix)]
        if io is not None:
            bump(io.counts, "list_dir")
            k = io.counter("store")
            io.log.add("s", k if io.in_scope else "-", "list_dir", prefix)
            if io.should_fire("store", k, "before") or io.should_fire("store", k, "after"):
                raise _injected("EIO")
            items.sort()
            if io.list_mode == "shuffle":
                before = list(items)
                io.list_rng.shuffle(items)
                if items != before:
                    bump(io.probes, "listing_order_nonidentity")
            elif io.list_mode == "reverse":
                items.reverse()
        for x in items:
            yield x

    async def list(self):
        io = _io()
        items = sorted([x async for x in _LocalStore.list(self)])
        if io is not None:
            bump(io.counts, "list")
            io.list_rng.shuffle(items)
        for x in items:
            yield x

    async def list_prefix(self, prefix):
        io = _io()
        items = sorted([x async for x in _LocalStore.list_prefix(self, prefix)])
        if io is not None:
            bump(io.counts, "list_prefix")
            io.list_rng.shuffle(items)
        for x in items:
            yield x

    # sync fast-path methods (only used by zarr's fused pipeline; counted so that a silently
    # bypassed async seam is visible)
    def get_sync(self, key, *, prototype=None, byte_range=None):
        io = _io()
        if io is not None:
            bump(io.counts, "get_sync")
        return _LocalStore.get_sync(self, key, prototype=prototype, byte_range=byte_range)

    def set_sync(self, key, value):
        io = _io()
        if io is not None:
            bump(io.counts, "set_sync")
        return _LocalStore.set_sync(self, key, value)

    def delete_sync(self, key):
        io = _io()
        if io is not None:
            bump(io.counts, "delete_sync")
        return _LocalStore.delete_sync(self, key)


# ------------------------------------------------------------------------------------------
# SimFS proxies
class _PathProxy:
    def __getattr__(self, n):
        return getattr(_os.path, n)

    def exists(self, p):
        io = _io()
        r = _os.path.exists(p)
        if io is not None:
            io.seam("path.exists", f"{io._rel(p)}={r}")
        return r

    def isdir(self, p):
        io = _io()
        r = _os.path.isdir(p)
        if io is not None:
            io.seam("path.isdir", f"{io._rel(p)}={r}")
        return r


class OsProxy:
    path = _PathProxy()

    def __getattr__(self, n):
        return getattr(_os, n)

    def makedirs(self, p, *a, **k):
        io = _io()
        if io is not None:
            io.seam("makedirs", io._rel(p))
            if io.should_fire("makedirs", io.counter("makedirs")):
                raise _injected("EACCES")
        return _os.makedirs(p, *a, **k)

    def remove(self, p, *a, **k):
        io = _io()
        if io is not None:
            io.seam("remove", io._rel(p))
            io.counter("remove")
        return _os.remove(p, *a, **k)

    def walk(self, top, *a, **k):
        io = _io()
        if io is None:
            yield from _os.walk(top, *a, **k)
            return
        io.seam("walk", io._rel(top))
        for dirpath, dirnames, filenames in _os.walk(top, *a, **k):
            dirnames.sort()
            filenames.sort()
            io.walk_rng.shuffle(dirnames)  # in-place: also decides the descent order
            io.walk_rng.shuffle(filenames)
            yield dirpath, dirnames, filenames


class ShutilProxy:
    def __getattr__(self, n):
        return getattr(_shutil, n)

    def rmtree(self, p, *a, **k):
        io = _io()
        if io is not None:
            io.seam("rmtree", io._rel(p))
            io.counter("rmtree")
        return _shutil.rmtree(p, *a, **k)


class _SimTemporaryDirectory(_tempfile.TemporaryDirectory):
    pass


class TempfileProxy:
    def __getattr__(self, n):
        return getattr(_tempfile, n)

    def TemporaryDirectory(self, *a, **k):
        io = _io()
        if io is None:
            return _tempfile.TemporaryDirectory(*a, **k)
        io.seam("TemporaryDirectory")
        if io.should_fire("tempdir", io.counter("tempdir")):
            raise _injected("ENOSPC")
        io.tmp_n += 1
        return _tempfile.TemporaryDirectory(prefix=f"t{io.tmp_n:03d}-", dir=io.tmp_root)

    def mkdtemp(self, *a, **k):
        io = _io()
        if io is None:
            return _tempfile.mkdtemp(*a, **k)
        io.seam("mkdtemp")
        io.tmp_n += 1
        return _tempfile.mkdtemp(prefix=f"t{io.tmp_n:03d}-", dir=io.tmp_root)


class SimZipFile(_zipfile.ZipFile):
    def __init__(self, file, mode="r", *a, **k):
        io = _io()
        self._sim_write = mode in ("w", "x", "a")
        if io is not None:
            io.seam("ZipFile", f"{io._rel(file)} mode={mode}")
            if self._sim_write and io.should_fire("zip_open", io.counter("zip_open")):
                raise _injected(io.fired_in_scope.get("errno", "EACCES"))
        super().__init__(file, mode, *a, **k)

    def write(self, filename, arcname=None, *a, **k):
        io = _io()
        if io is not None:
            kk = io.counter("zip_write")
            io.seam("zip.write", str(arcname))
            if io.should_fire("zip_write", kk):
                how = io.fired_in_scope.get("when", "before")
                if how == "after":       # the member landed, then the error was reported
                    super().write(filename, arcname, *a, **k)
                elif how == "torn":      # a short write: only the first half of the member landed
                    with open(filename, "rb") as f:
                        data = f.read()
                    self.writestr(str(arcname), data[: len(data) // 2])
                raise _injected(io.fired_in_scope.get("errno", "ENOSPC"))
            exc = _sticky(io)
            if exc is not None:
                raise exc
        return super().write(filename, arcname, *a, **k)

    def close(self):
        io = _io()
        if io is not None and self._sim_write and self.fp is not None:
            io.seam("zip.close")
            if io.should_fire("zip_close", io.counter("zip_close")):
                # the archive is left without central directory, as after a real ENOSPC in close
                fp = self.fp
                self.fp = None
                try:
                    fp.close()
                except Exception:
                    pass
                raise _injected("ENOSPC")
            exc = _sticky(io)
            if exc is not None:
                fp = self.fp
                self.fp = None
                try:
                    fp.close()
                except Exception:
                    pass
                raise exc
        return super().close()


class _FaultableModule:
    """Proxy for `torch` / `dill` as seen from serialize.py: one function can be made to raise."""

    def __init__(self, real, fn_name):
        object.__setattr__(self, "_real", real)
        object.__setattr__(self, "_fn", fn_name)

    def __getattr__(self, n):
        real = object.__getattribute__(self, "_real")
        if n == object.__getattribute__(self, "_fn"):
            f = getattr(real, n)

            def wrapped(*a, **k):
                io = _io()
                if io is not None:
                    kk = io.counter("ser")
                    io.log.add("ser", n, kk if io.in_scope else "-")
                    if io.should_fire("ser", kk):
                        raise TypeError("injected: cannot serialize object")
                return f(*a, **k)

            return wrapped
        return getattr(real, n)


_installed = {}


def install():
    """Place the proxies on quantem.core.io.serialize's module-level names. Idempotent."""
    import dill
    import torch

    import quantem.core.io.serialize as ser

    if _installed.get("done"):
        return
    need = ["LocalStore", "os", "shutil", "tempfile", "ZipFile", "dill", "torch"]
    missing = [n for n in need if not hasattr(ser, n)]
    if missing:
        raise HarnessError(f"serialize.py lost module-level seams {missing}")
    ser.LocalStore = SimStore
    ser.os = OsProxy()
    ser.shutil = ShutilProxy()
    ser.tempfile = TempfileProxy()
    ser.ZipFile = SimZipFile
    ser.dill = _FaultableModule(dill, "dumps")
    ser.torch = _FaultableModule(torch, "save")
    ser.print = lambda *a, **k: None  # silence "Warning: appending .zip" / dill fallback chatter
    _installed["done"] = True


# ------------------------------------------------------------------------------------------
# sandbox + tree hashing
_sandbox_n = [0]


def make_sandbox():
    base = _os.path.join(SHM, f"qsim-{_os.getpid()}")
    _os.makedirs(base, exist_ok=True)
    _sandbox_n[0] += 1
    d = _os.path.join(base, f"r{_sandbox_n[0]}")
    if _os.path.exists(d):
        _shutil.rmtree(d, ignore_errors=True)
    _os.makedirs(d)
    return d


def drop_sandbox(d):
    _shutil.rmtree(d, ignore_errors=True)


def _cleanup_base():
    base = _os.path.join(SHM, f"qsim-{_os.getpid()}")
    _shutil.rmtree(base, ignore_errors=True)


import atexit  # noqa: E402

atexit.register(_cleanup_base)


def tree_hash(path) -> str:
    """Content hash of a file or directory tree (names + bytes); 'ABSENT' if missing."""
    if not _os.path.lexists(path):
        return "ABSENT"
    h = hashlib.blake2b(digest_size=12)
    if _os.path.isfile(path):
        h.update(b"F")
        with open(path, "rb") as f:
            h.update(f.read())
        return h.hexdigest()
    for dirpath, dirnames, filenames in _os.walk(path):
        dirnames.sort()
        rel = _os.path.relpath(dirpath, path)
        h.update(b"D" + rel.encode() + b"\0")
        for fn in sorted(filenames):
            h.update(b"f" + fn.encode() + b"\0")
            with open(_os.path.join(dirpath, fn), "rb") as f:
                h.update(f.read())
            h.update(b"\0")
    return h.hexdigest()


def tree_list(path):
    out = []
    if _os.path.isfile(path):
        return ["<file>"]
    for dirpath, dirnames, filenames in _os.walk(path):
        dirnames.sort()
        rel = _os.path.relpath(dirpath, path)
        for fn in sorted(filenames):
            out.append(_os.path.normpath(_os.path.join(rel, fn)))
    return out
