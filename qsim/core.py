"""E-core: seed derivation, named PRNG sub-streams, event log, run results.

One integer decides everything: VERIF_SEED -> master; run i of property P in tier T uses
run_seed = derive(master, P, T, i); inside a run all choices come from Rng(run_seed) through
named forks so that adding a stream never shifts another one.
"""
from __future__ import annotations

import hashlib
import json
import os
import random
import sys
import time as _walltime  # wall clock: ONLY for budgets/evidence, never inside a run

VERIF_DIR = os.path.dirname(os.path.dirname(os.path.abspath(__file__)))
REPO = os.environ.get("VERIF_REPO", "/repo")


def derive(*parts) -> int:
    h = hashlib.blake2b(digest_size=8)
    for p in parts:
        h.update(repr(p).encode("utf-8", "backslashreplace"))
        h.update(b"\x00")
    return int.from_bytes(h.digest(), "big")


class Rng(random.Random):
    """random.Random with named, order-independent sub-streams."""

    def __init__(self, seed: int):
        super().__init__(seed)
        self.seed0 = seed

    def fork(self, name) -> "Rng":
        return Rng(derive(self.seed0, name))

    def chance(self, p: float) -> bool:
        return self.random() < p

    def pick(self, seq):
        return seq[self.randrange(len(seq))]

    def weighted(self, pairs):
        """pairs: [(item, weight), ...]"""
        tot = sum(w for _, w in pairs)
        x = self.random() * tot
        for it, w in pairs:
            x -= w
            if x < 0:
                return it
        return pairs[-1][0]

    def subset(self, seq, p=0.5, at_least=0):
        out = [x for x in seq if self.random() < p]
        if len(out) < at_least:
            rest = [x for x in seq if x not in out]
            self.shuffle(rest)
            out += rest[: at_least - len(out)]
        return out


class EventLog:
    """Append-only log of simulator events; the digest is the identity of an execution."""

    __slots__ = ("events", "keep", "_h", "n")

    def __init__(self, keep: bool = True):
        self.events = []
        self.keep = keep
        self._h = hashlib.blake2b(digest_size=12)
        self.n = 0

    def add(self, *ev):
        s = "|".join(map(str, ev))
        self._h.update(s.encode("utf-8", "backslashreplace"))
        self._h.update(b"\n")
        self.n += 1
        if self.keep:
            self.events.append(s)

    def digest(self) -> str:
        return self._h.hexdigest()


class Violation(dict):
    """{'oracle': id, 'detail': text, 'sig': stable class-of-failure signature}"""

    def __init__(self, oracle: str, detail: str, sig: str | None = None, **kw):
        super().__init__(oracle=oracle, detail=str(detail)[:600], sig=sig or oracle, **kw)


class HarnessError(Exception):
    """Raised for problems in the harness itself (never a verdict about quantem)."""


def new_result():
    return {
        "violations": [],
        "digest": "",
        "faults": {},
        "probes": {},
        "sched": [],
        "sim_time": 0.0,
        "nontrivial": None,
        "steps": 0,
        "obs": {},
    }


def bump(d: dict, k: str, n: int = 1):
    d[k] = d.get(k, 0) + n


def wall() -> float:
    return _walltime.monotonic()


def jdump(o) -> str:
    return json.dumps(o, sort_keys=True, default=_jd)


def _jd(o):
    if isinstance(o, (set, frozenset)):
        return sorted(o)
    if isinstance(o, bytes):
        return o.hex()
    return repr(o)


def plan_digest(plan) -> str:
    return hashlib.blake2b(jdump(plan).encode(), digest_size=8).hexdigest()


def use_repo():
    """Make `import quantem` resolve to VERIF_REPO/src (the tree under test)."""
    src = os.path.join(REPO, "src")
    if not os.path.isdir(os.path.join(src, "quantem")):
        raise HarnessError(f"no quantem sources under {src}")
    if sys.path[0] != src:
        sys.path.insert(0, src)
    if "quantem" in sys.modules:
        f = getattr(sys.modules["quantem"], "__file__", "") or ""
        if not os.path.abspath(f).startswith(os.path.abspath(src)):
            raise HarnessError(f"quantem already imported from {f}, wanted {src}")


def library_frame(exc):
    """If the exception was raised from inside the library under test (innermost traceback frame in
    VERIF_REPO/src), return 'file.py:function'; else None (then it is a harness problem)."""
    import traceback

    src = os.path.abspath(os.path.join(REPO, "src")) + os.sep
    tb = traceback.extract_tb(exc.__traceback__)
    if not tb:
        return None
    last = tb[-1]
    fn = os.path.abspath(last.filename)
    if fn.startswith(src):
        return f"{os.path.basename(fn)}:{last.name}"
    # errors raised by numpy/torch/zarr on behalf of a library frame further up still count when the
    # harness frame that called into the library is not the innermost python frame of the harness
    lib = [f for f in tb if os.path.abspath(f.filename).startswith(src)]
    harness_after = False
    seen_lib = False
    for f in tb:
        a = os.path.abspath(f.filename)
        if a.startswith(src):
            seen_lib = True
        elif seen_lib and a.startswith(VERIF_DIR + os.sep):
            harness_after = True   # library called back into the harness (a seam): harness frame
    if lib and not harness_after:
        return f"{os.path.basename(lib[-1].filename)}:{lib[-1].name}"
    return None
