from __future__ import annotations

import os
import sys


def main(argv):
    if os.environ.get("PYTHONHASHSEED") is None:
        # replay is exact only with pinned hashing; the launcher sets it, direct `python -m` may not
        os.environ["PYTHONHASHSEED"] = "0"
        os.execve(sys.executable, [sys.executable, "-X", "faulthandler", "-m", "qsim.cli"] + argv,
                  os.environ)
    from . import core

    core.use_repo()
    if not argv:
        print(__doc__ or "usage: vcheck <ID> quick|thorough | <ID> --replay f | --selftest")
        return 2
    if argv[0] == "--selftest":
        from . import selftest

        return selftest.main(argv[1:])
    pid = argv[0].upper()
    from . import driver

    try:
        if len(argv) >= 3 and argv[1] == "--replay":
            return driver.replay(pid, argv[2])
        tier = os.environ.get("VERIF_TIER") or (argv[1] if len(argv) > 1 else "quick")
        if len(argv) > 1 and argv[1] in ("quick", "thorough"):
            tier = argv[1]
        if tier not in ("quick", "thorough"):
            print(f"HARNESS-ERROR unknown tier {tier}")
            return 2
        return driver.run_check(pid, tier)
    except core.HarnessError as e:
        print(f"HARNESS-ERROR {e}")
        return 2


if __name__ == "__main__":
    sys.exit(main(sys.argv[1:]))
