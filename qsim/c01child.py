"""Fresh-interpreter half of C01: reads {plan, path} (JSON) on stdin, loads the path under its own
simulator, compares with the expectation rebuilt from the plan and prints 'RESULT <json diff>'.
Started by the parent with another PYTHONHASHSEED."""
import json
import sys


def main():
    req = json.loads(sys.stdin.read())
    from qsim.props import c01

    c01.setup()
    print("RESULT " + json.dumps(c01.child_load_and_diff(req)), flush=True)


if __name__ == "__main__":
    main()
