"""Importable AutoSerialize harness classes.  load() re-imports classes by module/qualname, so
these must live in a real module on sys.path (the launcher puts /verif on PYTHONPATH)."""
from quantem.core.io.serialize import AutoSerialize


class Plain(AutoSerialize):
    """Plain python class; attributes are whatever the graph spec says."""

    @property
    def summary(self):   # a read-only property: a skip name may coincide with it
        return len(vars(self))


class Node(AutoSerialize):
    """Used for attribute-nested children."""

    kind = "node"        # a class attribute: a skip name may coincide with it


class Leaf(Node):
    """Subclass of Node (type-skip by base class must hit it)."""


class Other(AutoSerialize):
    pass


class Outer:
    """Namespace class: Outer.Inner has a dotted __qualname__."""

    class Inner(Node):
        pass


class _Field:
    def __init__(self, name):
        self.name = name


class AttrsLike(AutoSerialize):
    """Looks like an `attrs` class to the serializer: a fixed, ordered field list."""

    __attrs_attrs__ = (_Field("fa"), _Field("fb"), _Field("fc"))


import torch  # noqa: E402


class Hybrid(AutoSerialize, torch.nn.Module):
    """AutoSerialize + nn.Module hybrid (like the library's object/probe models): parameters,
    a sub-module and plain attributes live side by side in __dict__."""

    def __init__(self):
        torch.nn.Module.__init__(self)

    def forward(self, x):
        return self.lin(x) + self._p1.sum()


import qsim_models2  # noqa: E402

CLASSES = {**qsim_models2.CLASSES, "Inner": Outer.Inner, "Hybrid": Hybrid, "Plain": Plain, "Node": Node, "Leaf": Leaf, "Other": Other, "AttrsLike": AttrsLike}
