#!/bin/bash
# Runs every mutant patch in /verif/mutants against the property named in mutants/MAP.txt
# and writes mutants/RESULTS.txt  (KILLED / SURVIVED / ERROR per mutant).
HERE="$(cd "$(dirname "${BASH_SOURCE[0]}")/.." && pwd)"
cd "$HERE"
: > mutants/RESULTS.txt
while read -r pat prop; do
  [ -z "$pat" ] && continue
  for f in mutants/${pat}*.patch; do
    [ -e "$f" ] || continue
    out=$(tools/sensitivity "$f" "$prop" quick 2>&1 | tail -1)
    echo "$(basename "$f") $prop :: $out" | tee -a mutants/RESULTS.txt
  done
done < mutants/MAP.txt
