#!/bin/bash
# usage: tools/verify_seed.sh <src-worktree-with-patch.diff+demo.py> <seed-id> <PROP> [more PROPs...]
# Confirms a seeded change independently in a FRESH scratch worktree of /repo (outside /repo and
# /verif): patch applies, demo passes without / fails with the change, baseline tests pass with
# the change; then runs the given checks against the changed tree. Removes the worktree.
set -u
SRC="$1"; SID="$2"; shift 2
HERE="$(cd "$(dirname "${BASH_SOURCE[0]}")/.." && pwd)"
WT="/tmp/seedchk/$SID"
rm -rf "$WT"; mkdir -p /tmp/seedchk
git -C /repo worktree add -q --detach "$WT" HEAD || exit 2
trap 'git -C /repo worktree remove --force "$WT" >/dev/null 2>&1; rm -rf "$WT"' EXIT
cp "$SRC/demo.py" "$WT/demo.py"
OUT="$HERE/seeded/$SID"; mkdir -p "$OUT"
echo "== demo WITHOUT change"; (cd "$WT" && PYTHONPATH="$WT/src" timeout 600 /venv/bin/python demo.py > "$OUT/demo_without.log" 2>&1); RC0=$?; echo "rc=$RC0"; tail -2 "$OUT/demo_without.log"
if ! git -C "$WT" apply "$SRC/patch.diff"; then echo "PATCH DOES NOT APPLY"; exit 2; fi
echo "== demo WITH change"; (cd "$WT" && PYTHONPATH="$WT/src" timeout 600 /venv/bin/python demo.py > "$OUT/demo_with.log" 2>&1); RC1=$?; echo "rc=$RC1"; tail -3 "$OUT/demo_with.log"
echo "== baseline tests WITH change"
(cd "$WT" && PYTHONPATH="$WT/src" timeout 1500 /venv/bin/python -m pytest -q -p no:cacheprovider --timeout=900 tests > "$OUT/tests_with.log" 2>&1); RCT=$?; tail -1 "$OUT/tests_with.log"
for PROP in "$@"; do
  echo "== check $PROP against the changed tree"
  (cd "$HERE" && VERIF_REPO="$WT" QSIM_EVIDENCE_DIR="$WT/.ev" QSIM_REPLAY_DIR="$OUT/replays" ./vcheck "$PROP" quick > "$OUT/check_$PROP.log" 2>&1); RC=$?
  grep -E "VIOLATION|oracle=|\(also\)|HARNESS|\[qsim\] $PROP" "$OUT/check_$PROP.log" | head -6
  echo "check_rc[$PROP]=$RC"
done
echo "SUMMARY $SID demo_without=$RC0 demo_with=$RC1 tests=$RCT"
