#!/usr/bin/env python3
"""Regenerates /verif/MANIFEST.json from the table below (single source of truth)."""
import json, os
HERE = os.path.dirname(os.path.dirname(os.path.abspath(__file__)))

CLAIMED = {
 "C08": dict(level="fault_enumeration", ref="DESIGN.md section 4 C08",
   text="Seeded workloads (object graphs x preconditions x store/mode x I/O schedules); for each, a deterministic recording pass counts every store operation / zip member / pickle call of save(), then the history is re-executed with an exception injected at sampled (quick) or EVERY (thorough) position; after each step a reference model of the allowed target states (absent, unreadable, bit-identical old, complete old, complete new) is checked by loading the target in a restart, plus sibling-tree hashes, staging leaks, write-once immutability and recovery by the next clean save. Sampling over workloads/schedules, exhaustive over fault positions per workload in the thorough tier.",
   note="Trusts: zarr's _put is atomic (write-temp + rename); simulated executor runs each blocking call atomically; Exception-type faults at the operations the property names plus an injected Ctrl-C (BaseException) at the synchronous zip-assembly seams; pre-states include foreign files/dirs, earlier objects, hard-linked snapshots, symlinked targets and '..' behind symlinked parents (a link's destination counts as part of the target); completeness judged against a fault-free save+load of the same object in the same run.",
   technique="deterministic simulation: virtual-time single-thread zarr event loop + fault-position sweep over recorded store/zip/pickle operations (one-shot and sticky/persistent ENOSPC-EIO faults, lost/landed/torn zip members, injected Ctrl-C), scratch HOME and symlink/hard-link/tilde/dot-dot target spellings, reference model of allowed durable states"),
}
CLAIMED["C01"] = dict(level="exploration", ref="DESIGN.md section 4 C01",
   text="Seeded search over object graphs (swarm of value kinds, sizes, tricky names) x both stores x compression levels x modes x preconditions x I/O schedules: save under the simulated zarr loop, restart (expectation rebuilt from the JSON spec, freed memory poisoned, sampled loads in a process forked before the graph existed), load, exact structural comparison incl. attribute-name sets, second generation fixed point and zip-vs-dir agreement. Sampling, not enumeration: a clean run is evidence over the explored graphs/schedules only.",
   note="Trusts the structural comparison in qsim/graphs.py (exact dtype/shape/bytes, container kinds, attribute sets; numeric-value comparison only where the property allows it). Generator restrictions are listed in the evidence assumptions.",
   technique="deterministic simulation: seeded object-graph workloads under a virtual-time zarr loop with seeded I/O completion/listing order, restart-then-compare oracle (same process, forked process with poisoned memory, fresh interpreter with another PYTHONHASHSEED), second-generation fixed point, live object mutated in place between two saves, tuning-knob randomisation")
CLAIMED["C14"] = dict(level="exploration", ref="DESIGN.md section 4 C14",
   text="Seeded search over attribute-nested object graphs (names repeated across levels) x skip sets (present/absent names at any depth, lists of types incl. a base class) x stores x I/O schedules; six save/load histories (skip at save, at load, split, second generation, by type) are executed under the simulated zarr loop and each result is compared with a pruning reference model applied to the unskipped round trip; confluence save-skip == load-skip is checked pairwise.",
   note="Trusts graphs.equal and the pruning model (attribute paths removed by name at every attribute-nested level; isinstance for types on the original values). Load-time type skipping and AutoSerialize objects inside containers are outside the property and not generated.",
   technique="deterministic simulation: seeded save/load histories with skip lists under a virtual-time zarr loop, pruning reference model + confluence check")
CLAIMED["C19"] = dict(level="exploration", ref="DESIGN.md section 4 C19",
   text="Seeded operation histories (set mapping/kwargs, nested with-blocks incl. exceptions inside, update_defaults, refresh, get, accepted and rejected device requests; '-'/'_' spellings; flat and dotted keys) on private containers and on the process-global store, stepped in lock-step against a dictionary reference model; the whole store is compared with the model after every operation. Sampling of histories with swarm-selected alphabets; a clean run is evidence for the explored histories only.",
   note="Trusts the reference model in qsim/props/c19.py (dask semantics documented in config.py docstrings). Generator restrictions (single-separator keys, fixed key roles, disjoint value pools, lone device requests) are listed in evidence assumptions. No GPU: device clauses are exercised as rejections plus the cpu spellings.",
   technique="deterministic history simulation: seeded operation sequences incl. rejected operations stepped against an executable reference model, ddmin-minimised replays")
CLAIMED["C11"] = dict(level="exploration", ref="DESIGN.md section 4 C11",
   text="Seeded operation histories over the whole public Vector API (creation with 1-3 fixed dims, cell/slice/fancy get and set incl. partial indices and Vector-valued sources, field arithmetic, flatten/set_flattened, add/remove fields, copy, metadata, a second independent vector, rejected operations) stepped against a reference model; every public read of every live vector is compared after every operation, structural invariants are asserted, and copy/independence is checked by mutating one object and diffing the other.",
   note="Trusts the reference model in qsim/props/c11.py. Caller-side aliasing of cell arrays and the documented view semantics of slices are excluded (assumptions in evidence). Rejected multi-cell assignments are checked for invariants, not atomicity (the property states invariants).",
   technique="deterministic history simulation: seeded operation sequences incl. rejected operations stepped against an executable reference model, ddmin-minimised replays")
CLAIMED["C03"] = dict(level="exploration", ref="DESIGN.md section 4 C03",
   text="Seeded operation histories (depth <= 12, coverage-steered over all ordered pairs (quick) / triples (thorough) of the 12 operation kinds) over Dataset and its 2d/3d/4d/4dstem subclasses: construction, copy, setters (valid and rejected), pad/crop/bin/fourier_resample executed both as copying variant on the working dataset and as in-place variant on a copy (results compared, source compared with its snapshot), indexing with NumPy itself as the specification, re-binding to results so dimensionality changes flow on; invariants (calibration lengths, class vs dimensionality, registry) after every step.",
   note="Trusts NumPy indexing as the specification and the snapshot/differential oracles in qsim/props/c03.py. Index expressions that make NumPy move the broadcast axis (list separated from an integer by a slice) and empty axes are not generated (assumptions in evidence). Numerical correctness of the four operations is C06 and not claimed.",
   technique="deterministic history simulation: seeded, coverage-steered operation sequences incl. rejected operations; NumPy-as-specification and in-place-vs-copy differential oracles; ddmin-minimised replays")
CLAIMED["C09"] = dict(level="exploration", ref="DESIGN.md section 4 C09",
   text="The library's own seeded scheduler is the object under test. (A) SimpleBatcher driven by simulator-answered permutations (identity/reverse/rotation/riffle/last-block-first/PRNG) over n, batch size, validation ratio/mode and epochs: exact partition per epoch, len == batches yielded, disjoint covering split, stable split, contiguous tilings of generate_batches. (B) per-batch losses and gradients tapped through the real reconstruct() loop at fixed parameters for every divisor batch size: mean equals full batch. (C) seeded determinism checked as replay: two instances / reset-and-rerun give identical batch sequences and loss histories, another seed gives another schedule; the batches seen by the forward model form an exact partition. Sampling over configurations.",
   note="Trusts the tiny simulated ptychography problem (qsim/tinyptycho.py) as a representative instance; float32 tolerance 1e-4 (HEAD deviates <= 3e-7); all five loss types; gradients compared for the autograd path only (autograd=False yields a per-batch normalised update direction, not the loss gradient); a fraction of the seeded runs is repeated in a fresh interpreter with another PYTHONHASHSEED; the optimizer update is skipped in (B) by overriding the public step_optimizers method.",
   technique="deterministic schedule simulation: simulator-owned permutation answers and batch-size knob, invariants per epoch, batch-invariance and seeded-replay oracles through the real reconstruction loop")
CLAIMED["C18"] = dict(level="exploration", ref="DESIGN.md section 4 C18",
   text="Seeded 4-D datasets (non-square scan and detector, positive asymmetric patterns) and a history of calls on ONE origin-model instance: calculate_origin / fit_origin_background / shift_origin_to under every batch size the public knob can produce, injected MemoryError after j batches followed by a retry with a smaller batch (the failed call must not change published state), planted plane/constant origins, planted integer origins (shift must equal np.roll), plus the dataset model's vectorised and looped paths and ptycho_utils.fit_origin; all compared with a float64 NumPy reference. The schedule dimension is the batch partition and the fault/retry history; the analytic oracles ride along.",
   note="Trusts the float64 reference and the calibrated float32 tolerances (HEAD deviates <= 5e-7). Thin as a simulation target (DESIGN section 2 says so): most deciding power is seeded generation over batch partitions, call histories and allocation faults.",
   technique="deterministic schedule simulation: batch-size knob, armed allocation failure + retry on a reused instance, float64 reference oracle")
CLAIMED["C04"] = dict(level="exploration", ref="DESIGN.md section 4 C04",
   text="Seeded direct-ptychography problems and ONE instance reused for a history of reconstruct calls (all five kernels and their aliases, upsampling 1-3, filters, sub-masks) under every batch size the public knob can produce, with MemoryError injected after j batches of pass 1 or pass 2 followed by a retry with a smaller batch (failed calls must leave the published stack untouched); every call is compared with a fresh instance run full-batch. Linearity in the stack, recombination of complementary sub-masks with aperture weights and the two analytic parallax limits (NumPy reference) ride along on the same instances and are labelled as pure-input oracles.",
   note="Trusts the fresh full-batch run of the real code as reference for clause 1 and ~20 lines of NumPy for the analytic clauses; float32 tolerances calibrated on HEAD (<= 2e-7 observed, 2e-5 demanded). Thin as a simulation target (DESIGN section 2): the schedule is the batch partition, the history is instance reuse, the fault is an allocation failure mid-stream.",
   technique="deterministic schedule simulation: batch-size knob, armed allocation failure in pass 1/2 + retry on a reused instance, fresh-instance full-batch reference, cropped-vs-uncropped mask instances, analytic NumPy oracles, tuning-knob randomisation")
CLAIMED["C05"] = dict(level="exploration", ref="DESIGN.md section 4 C05",
   text="A tiny ptychography problem is built twice from one seeded configuration (object type, slices, probe modes, optimizer x lr, optimised subset, scheduler, constraints, snapshots, store, compression, I/O schedule): U runs uninterrupted (the real code is its own reference model), R receives the same reconstruct calls interleaved with interruptions - save with data under the simulated zarr loop + restart + from_file, clone, clone with an injected deepcopy failure (save/reload fallback) - incl. split at iteration 0, adjacent interruptions and interruption of a clone. Exact comparison of what the statement lists right after every interruption, tolerance comparison with U after every later call, clone independence by stepping the clone and diffing the original.",
   note="Trusts the uninterrupted twin as reference and the calibrated tolerance 1e-4 (HEAD <= 7e-7). Full batch only; raw data saved with the object; optimizer/scheduler binding are diagnostics only. No GPU: device moves are CPU->CPU.",
   technique="deterministic simulation: twin instances, seeded interruption histories (save/restart/reload under a virtual-time zarr loop, clone, injected deepcopy failure), uninterrupted-twin oracle with measured round-off scale, reload-and-continue repeated in a fresh interpreter with another PYTHONHASHSEED")
NA = {
 "C02": "single evaluation of a deterministic forward model at a known ground truth; no schedule, state, fault or persistence in the claim - a simulator would only be an input generator",
 "C06": "conservation laws of bin/fourier_resample/pad/crop as pure array->array maps (the operation-history aspect of the same methods is claimed under C03)",
 "C07": "numerical agreement of two pure functions (torch Radon/FBP vs scikit-image) over inputs; no order, time, I/O or fault",
 "C10": "constraint application, Gram-Schmidt and probe normalisation are pure maps of a parameter tensor; 'whatever the optimiser did' quantifies over inputs, not over a run",
 "C12": "symbolic/numeric identity between hand-written series; no execution order exists to vary",
 "C13": "shift estimators are pure functions of two images",
 "C15": "geometry of one resampling call and a fixed point of one alignment call; no schedule, history or fault in the claim",
 "C16": "unitarity/adjointness/idempotence identities of stateless operators",
 "C17": "unwrapping is a deterministic function of field and mask; its merge order is fixed by the input, not by a scheduler",
 "C20": "range/monotonicity/inverse identities of stateless maps",
}
PENDING = {k: "claimed in DESIGN.md (section 4); its check is still under construction in this build session and therefore not yet registered" for k in []}

def main():
    checks = []
    for pid, c in sorted(CLAIMED.items()):
        checks.append({
            "property_id": pid,
            "quick_cmd": f"./vcheck {pid} quick",
            "thorough_cmd": f"./vcheck {pid} thorough",
            "evidence_file": f"evidence/{pid}.json",
            "replay_cmd_template": f"./vcheck {pid} --replay {{path}}",
            "engine": "qsim",
            "level_claimed": {"category": c["level"], "text": c["text"], "design_ref": c["ref"]},
            "level_note": c["note"],
            "technique": c["technique"],
        })
    na = [{"property_id": k, "reason": v} for k, v in sorted({**NA, **PENDING}.items())]
    m = {
        "version": 1,
        "setup_cmd": "./vcheck --selftest short",
        "hooks": {
            "guard": "QUANTEM_VERIF",
            "enable": "no hook in /repo is needed: every seam is an existing module-level name or keyword parameter (zarr sync(), serialize.LocalStore/os/shutil/tempfile/ZipFile/dill/torch, rng=, config=, max_batch_size=); the checks import quantem from /repo/src (editable install, nothing to build)",
            "baseline_off_cmd": "cd /repo && /venv/bin/python -m pytest -ra -q -p no:cacheprovider --timeout=900 --continue-on-collection-errors",
            "source_commits": [],
            "add_only": True,
        },
        "engines": [{
            "name": "qsim",
            "path": "qsim/",
            "serves_properties": sorted(CLAIMED),
            "kind_free_text": "deterministic simulation with fault injection: one seed -> plan -> run; E-simio (virtual-time zarr loop, instrumented store, fs/zip/pickle fault seams, restart), E-simsched (seeded batch schedules, allocation failures), E-simhist (operation histories against reference models); own ddmin-style minimiser and replay files",
        }],
        "checks": checks,
        "not_applicable": na,
        "notes": "Exit codes of ./vcheck: 0 held (possibly KNOWN-FINDING lines), 1 VIOLATION, 2 HARNESS-ERROR (no verdict). Known findings: known_findings.json. Seeded breaking changes: seeded/. DESIGN.md explains approach, soundness rules and which checks catch which changes.",
    }
    with open(os.path.join(HERE, "MANIFEST.json"), "w") as f:
        json.dump(m, f, indent=1)
    print("wrote MANIFEST.json:", len(checks), "checks,", len(na), "not applicable")

if __name__ == "__main__":
    main()
