#!/usr/bin/env python3
"""tools/mkmutant.py <id> <repo-relative file> <<< JSON {"old": "...", "new": "..."}  (or import and call make)"""
import difflib, os, sys, json
HERE = os.path.dirname(os.path.dirname(os.path.abspath(__file__)))

def make(mid, relfile, old, new, count=1):
    path = os.path.join("/repo", relfile)
    src = open(path).read()
    assert src.count(old) >= 1, f"{mid}: pattern not found in {relfile}"
    dst = src.replace(old, new, count)
    diff = difflib.unified_diff(src.splitlines(True), dst.splitlines(True), "a/" + relfile, "b/" + relfile)
    out = os.path.join(HERE, "mutants", f"{mid}.patch")
    open(out, "w").write("".join(diff))
    return out

if __name__ == "__main__":
    d = json.load(sys.stdin)
    print(make(sys.argv[1], sys.argv[2], d["old"], d["new"]))
