#!/bin/bash
# usage: tools/cross_matrix.sh "<seed ids>" "<props>"  -> seeded/CROSS.txt lines "<seed> <prop> rc classes"
HERE="$(cd "$(dirname "${BASH_SOURCE[0]}")/.." && pwd)"; cd "$HERE"
for sid in $1; do
  SCR="$(mktemp -d /var/tmp/qsim-x-XXXXXX)"; mkdir -p "$SCR/repo"; cp -r /repo/src "$SCR/repo/src"
  (cd "$SCR/repo" && patch -p1 -s < "$HERE/seeded/$sid/patch.diff") || { echo "$sid PATCHFAIL"; rm -rf "$SCR"; continue; }
  for pr in $2; do
    VERIF_REPO="$SCR/repo" QSIM_EVIDENCE_DIR="$SCR/ev" QSIM_REPLAY_DIR="$SCR/rp" QSIM_NO_SHRINK=1 ./vcheck $pr quick > "$SCR/out.txt" 2>&1; rc=$?
    cls=$(grep -oE "oracle=[a-z_]+ sig=[^ ]+" "$SCR/out.txt" | sort -u | head -4 | tr '\n' ';')
    echo "$sid $pr rc=$rc $cls" | tee -a seeded/CROSS.txt
  done
  rm -rf "$SCR"
done
