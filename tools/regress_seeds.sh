#!/bin/bash
# usage: tools/regress_seeds.sh <out-file> <seed ids...>
# Re-runs the quick check of the property each recorded seed breaks against a copy of /repo/src with
# the seed's patch applied (no demo, no test suite): is every recorded seed still caught?
HERE="$(cd "$(dirname "${BASH_SOURCE[0]}")/.." && pwd)"; cd "$HERE"
OUT="$1"; shift
for sid in "$@"; do
  pr=$(jq -r .breaks_property seeded/$sid/meta.json)
  SCR="$(mktemp -d /var/tmp/qsim-r-XXXXXX)"; mkdir -p "$SCR/repo"; cp -r /repo/src "$SCR/repo/src"
  if ! (cd "$SCR/repo" && patch -p1 -s --no-backup-if-mismatch < "$HERE/seeded/$sid/patch.diff" >/dev/null 2>&1); then
    echo "$sid $pr PATCH-DOES-NOT-APPLY-ANY-MORE (a later fix: commit touched the same lines)" >> "$OUT"; rm -rf "$SCR"; continue; fi
  VERIF_REPO="$SCR/repo" QSIM_EVIDENCE_DIR="$SCR/ev" QSIM_REPLAY_DIR="$SCR/rp" QSIM_NO_SHRINK=1 VERIF_JOBS=4 ./vcheck $pr quick > "$SCR/out.txt" 2>&1; rc=$?
  cls=$(grep -oE "oracle=[a-z_]+ sig=[^ ]+" "$SCR/out.txt" | sort -u | head -2 | tr '\n' ';')
  echo "$sid $pr rc=$rc $cls" >> "$OUT"
  rm -rf "$SCR"
done
