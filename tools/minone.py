#!/venv/bin/python
"""Debug helper: run one run index of a property, minimise a chosen violation class, print it.
usage: tools/minone.py C11 quick 212 [sig-substring] [seed]"""
import json, os, sys
sys.path.insert(0, os.path.dirname(os.path.dirname(os.path.abspath(__file__))))
os.environ.setdefault("PYTHONHASHSEED", "0")
os.environ.setdefault("QUANTEM_CONFIG", "/nonexistent/qsim-config")
from qsim import core, driver
core.use_repo()
pid, tier, idx = sys.argv[1], sys.argv[2], int(sys.argv[3])
sub = sys.argv[4] if len(sys.argv) > 4 else ""
seed = int(sys.argv[5]) if len(sys.argv) > 5 else 0
prop = driver.load_prop(pid)
prop.setup()
plan, res = driver.run_one(prop, tier, seed, idx)
vs = [v for v in res["violations"] if sub in v["sig"] or sub in v["oracle"]]
if not vs:
    print("no matching violation; have:", [(v["oracle"], v["sig"]) for v in res["violations"]]); sys.exit(0)
v = vs[0]
if v.get("narrow"):
    plan = {**plan, **v["narrow"]}
plan2, meta = driver.minimise(prop, plan, v["oracle"], 8, max_runs=600, max_s=60)
r = prop.run(plan2)
print(json.dumps(plan2))
print(meta)
for x in r["violations"]:
    print(x["oracle"], "|", x["sig"], "|", x["detail"])
