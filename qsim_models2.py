"""A SECOND module defining classes with the SAME qualified names as qsim_models (Plain, Node,
Outer.Inner): the serializer records module + class name, and 'an object of the same class' must hold
when two modules of one program define the same class name (quantem itself has ObjectBase,
ObjectConstraints, ... in two modules)."""
from quantem.core.io.serialize import AutoSerialize


class Plain(AutoSerialize):
    pass


class Node(AutoSerialize):
    kind = "node2"


class Outer:
    class Inner(Node):
        pass


CLASSES = {"Plain@2": Plain, "Node@2": Node, "Inner@2": Outer.Inner}
